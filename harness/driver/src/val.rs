//! Abstraction between the library's values and the tagged interchange values of the TLA+ specification
//! (DESIGN.md 2.3).  Nothing in here knows what result is *expected*: it converts, runs and records.

use jmespath::ast::Ast;
use jmespath::{ErrorReason, JmespathError, Rcvar, RuntimeError, Variable};
use serde_json::{json, Map, Number, Value};
use std::panic::{catch_unwind, AssertUnwindSafe};

pub fn cps(s: &str) -> Value {
    Value::Array(s.chars().map(|c| json!(c as u32)).collect())
}

pub fn ascii_cps(s: &str) -> Value {
    Value::Array(
        s.chars()
            .take(200)
            .map(|c| json!(if (c as u32) < 128 { c as u32 } else { 63 }))
            .collect(),
    )
}

pub fn uncps(v: &Value) -> String {
    v.as_array()
        .map(|a| {
            a.iter()
                .map(|c| std::char::from_u32(c.as_u64().unwrap_or(0xFFFD) as u32).unwrap_or('\u{FFFD}'))
                .collect()
        })
        .unwrap_or_default()
}

fn gcd(a: i64, b: i64) -> i64 {
    if b == 0 {
        a.abs()
    } else {
        gcd(b, a % b)
    }
}

/// Doubles on an integer scale that is monotone in the real order (both zeros at 0): the difference of two
/// images is their distance in units in the last place.
pub fn ordered(f: f64) -> i64 {
    if f == 0.0 {
        return 0;
    }
    let b = (f.to_bits() & 0x7FFF_FFFF_FFFF_FFFF) as i64;
    if f < 0.0 {
        -b
    } else {
        b
    }
}

pub fn from_ordered(o: i64) -> f64 {
    if o < 0 {
        -f64::from_bits((-o) as u64)
    } else {
        f64::from_bits(o as u64)
    }
}

pub const INEXACT: i64 = 9999;

/// The tagged number for the double `f` recognised as (a neighbour of) p/q: JValue.tla "Neighbouring doubles".
fn near_tagged(f: f64, p: i64, q: i64) -> Value {
    let base = (p as f64) / (q as f64);
    let d = ordered(f).wrapping_sub(ordered(base));
    if d == 0 {
        json!({"t":"num","p":p,"q":q})
    } else if d.abs() <= 1000 && base != 0.0 {
        json!({"t":"num","p":p,"q":q,"u":d})
    } else {
        json!({"t":"num","p":p,"q":q,"u":INEXACT})
    }
}

/// JValue.tla "Large magnitudes": digits * 10^exp10 as [p, q = 1, e] when it has at most 9 significant digits and is >= 10^10.
fn big_tagged(neg: bool, digits: &str, exp10: i64) -> Option<Value> {
    let t = digits.trim_start_matches('0');
    let sig = t.trim_end_matches('0');
    let e = exp10 + (t.len() - sig.len()) as i64;
    if sig.is_empty() || sig.len() > 9 || e < 1 || (sig.len() as i64) + e < 11 || e > 310 {
        return None;
    }
    let p: i64 = sig.parse().ok()?;
    Some(json!({"t":"num","p":if neg { -p } else { p },"q":1,"e":e}))
}

/// A number as a tagged value: small rationals exactly, everything else outside the modelled domain.
pub fn num_to_tagged(n: &Number) -> Value {
    if let Some(i) = n.as_i64() {
        if i.unsigned_abs() <= i32::MAX as u64 {
            return json!({"t":"num","p":i,"q":1});
        }
        return big_tagged(i < 0, &i.unsigned_abs().to_string(), 0).unwrap_or_else(|| json!({"t":"num","big":i.to_string()}));
    }
    if let Some(u) = n.as_u64() {
        return big_tagged(false, &u.to_string(), 0).unwrap_or_else(|| json!({"t":"num","big":u.to_string()}));
    }
    let f = n.as_f64().unwrap_or(f64::NAN);
    if !f.is_finite() {
        return json!({"t":"num","f":format!("{}", f)});
    }
    if f.abs() >= 1e10 {
        // shortest round-trip digits of the double: d.ddd e X
        let sci = format!("{:e}", f.abs());
        if let Some((mant, exp)) = sci.split_once('e') {
            let digits: String = mant.chars().filter(|c| c.is_ascii_digit()).collect();
            let frac = mant.split_once('.').map(|(_, fr)| fr.len()).unwrap_or(0) as i64;
            if let Ok(x) = exp.parse::<i64>() {
                if let Some(t) = big_tagged(f < 0.0, &digits, x - frac) {
                    return t;
                }
            }
        }
        return json!({"t":"num","f":format!("{:?}", f)});
    }
    // continued-fraction expansion: the simplest rational within the tolerance, denominator up to 10^6
    let (mut h0, mut h1, mut k0, mut k1) = (0i64, 1i64, 1i64, 0i64);
    let mut x = f;
    for _ in 0..40 {
        let a = x.floor();
        if a.abs() > 2.0e9 {
            break;
        }
        let (h2, k2) = ((a as i64).saturating_mul(h1).saturating_add(h0), (a as i64).saturating_mul(k1).saturating_add(k0));
        if k2 <= 0 || k2 > 1_000_000 || h2.abs() >= 2_000_000_000 {
            break;
        }
        h0 = h1;
        h1 = h2;
        k0 = k1;
        k1 = k2;
        let approx = (h1 as f64) / (k1 as f64);
        if (approx - f).abs() <= 1e-15 + 1e-13 * f.abs() {
            let g = gcd(h1, k1).max(1);
            let (p, q) = if k1 < 0 { (-h1 / g, -k1 / g) } else { (h1 / g, k1 / g) };
            return near_tagged(f, p, q);
        }
        let frac = x - a;
        if frac.abs() < 1e-18 {
            break;
        }
        x = 1.0 / frac;
    }
    json!({"t":"num","f":format!("{:?}", f)})
}

pub fn to_tagged(v: &Variable) -> Value {
    match v {
        Variable::Null => json!({"t":"null"}),
        Variable::Bool(b) => json!({"t":"bool","b":b}),
        Variable::Number(n) => num_to_tagged(n),
        Variable::String(s) => json!({"t":"str","s":cps(s)}),
        Variable::Array(a) => json!({"t":"arr","a":a.iter().map(|x| to_tagged(x)).collect::<Vec<_>>()}),
        Variable::Object(m) => {
            // BTreeMap iterates in ascending byte order of the UTF-8 keys = ascending code-point order
            json!({"t":"obj","o":m.iter().map(|(k, x)| json!({"k":cps(k),"v":to_tagged(x)})).collect::<Vec<_>>()})
        }
        Variable::Expref(ast) => json!({"t":"expref","ast":ast_to_json(ast, false)}),
    }
}

/// JSON text of a tagged value (documents are handed to the library as JSON text through `Variable::from_json`).
pub fn tagged_to_json(t: &Value) -> Result<Value, String> {
    let tag = t.get("t").and_then(|x| x.as_str()).ok_or_else(|| format!("no tag in {}", t))?;
    Ok(match tag {
        "null" => Value::Null,
        "bool" => Value::Bool(t["b"].as_bool().ok_or("bool.b")?),
        "num" => {
            if let Some(b) = t.get("big") {
                let s = b.as_str().ok_or("big")?;
                serde_json::from_str::<Value>(s).map_err(|e| e.to_string())?
            } else {
                let p = t["p"].as_i64().ok_or("num.p")?;
                let q = t["q"].as_i64().ok_or("num.q")?;
                let u = t.get("u").and_then(|x| x.as_i64()).unwrap_or(0);
                let e = t.get("e").and_then(|x| x.as_i64()).unwrap_or(0);
                if t.get("z").and_then(|x| x.as_bool()).unwrap_or(false) {
                    json!(-0.0f64)          // zero with its sign bit set: the same number as 0 (field z is only read here)
                } else if e != 0 {
                    serde_json::from_str::<Value>(&format!("{}e{}", p, e)).map_err(|e| e.to_string())?
                } else if u != 0 {
                    json!(from_ordered(ordered((p as f64) / (q as f64)) + u))
                } else if q == 1 {
                    json!(p)
                } else {
                    json!((p as f64) / (q as f64))
                }
            }
        }
        "str" => Value::String(uncps(&t["s"])),
        "arr" => Value::Array(
            t["a"].as_array().ok_or("arr.a")?.iter().map(tagged_to_json).collect::<Result<Vec<_>, _>>()?,
        ),
        "obj" => {
            let mut m = Map::new();
            for kv in t["o"].as_array().ok_or("obj.o")? {
                m.insert(uncps(&kv["k"]), tagged_to_json(&kv["v"])?);
            }
            Value::Object(m)
        }
        other => return Err(format!("unknown tag {}", other)),
    })
}

fn has_near(t: &Value) -> bool {
    match t.get("t").and_then(|x| x.as_str()) {
        Some("num") => t.get("u").and_then(|x| x.as_i64()).unwrap_or(0) != 0,
        Some("arr") => t["a"].as_array().map(|a| a.iter().any(has_near)).unwrap_or(false),
        Some("obj") => t["o"].as_array().map(|a| a.iter().any(|kv| has_near(&kv["v"]))).unwrap_or(false),
        _ => false,
    }
}

/// Builds the library value node by node (no JSON text in between): used for documents that hold neighbouring doubles,
/// whose 17-digit spellings the JSON parser may legitimately move by a unit in the last place (C08).
fn json_to_var_direct(j: &Value) -> Rcvar {
    Rcvar::new(match j {
        Value::Null => Variable::Null,
        Value::Bool(b) => Variable::Bool(*b),
        Value::Number(n) => Variable::Number(n.clone()),
        Value::String(s) => Variable::String(s.clone()),
        Value::Array(a) => Variable::Array(a.iter().map(json_to_var_direct).collect()),
        Value::Object(m) => Variable::Object(m.iter().map(|(k, v)| (k.clone(), json_to_var_direct(v))).collect()),
    })
}

pub fn tagged_to_var(t: &Value) -> Result<Rcvar, String> {
    let j = tagged_to_json(t)?;
    if has_near(t) {
        return Ok(json_to_var_direct(&j));
    }
    let text = serde_json::to_string(&j).map_err(|e| e.to_string())?;
    Variable::from_json(&text).map(Rcvar::new)
}

pub fn cmp_name(c: &jmespath::ast::Comparator) -> &'static str {
    use jmespath::ast::Comparator::*;
    match c {
        Equal => "eq",
        NotEqual => "ne",
        LessThan => "lt",
        LessThanEqual => "le",
        GreaterThan => "gt",
        GreaterThanEqual => "ge",
    }
}

/// The public AST in the model's vocabulary.  Offsets are kept only when `offs` is set.
pub fn ast_to_json(a: &Ast, offs: bool) -> Value {
    let mut v = match a {
        Ast::Comparison { comparator, lhs, rhs, .. } => {
            json!({"n":"Comparison","op":cmp_name(comparator),"l":ast_to_json(lhs, offs),"r":ast_to_json(rhs, offs)})
        }
        Ast::Condition { predicate, then, .. } => {
            json!({"n":"Condition","l":ast_to_json(predicate, offs),"r":ast_to_json(then, offs)})
        }
        Ast::Identity { .. } => json!({"n":"Identity"}),
        Ast::Expref { ast, .. } => json!({"n":"Expref","l":ast_to_json(ast, offs)}),
        Ast::Flatten { node, .. } => json!({"n":"Flatten","l":ast_to_json(node, offs)}),
        Ast::Function { name, args, .. } => {
            json!({"n":"Function","name":cps(name),"args":args.iter().map(|x| ast_to_json(x, offs)).collect::<Vec<_>>()})
        }
        Ast::Field { name, .. } => json!({"n":"Field","name":cps(name)}),
        Ast::Index { idx, .. } => json!({"n":"Index","idx":idx}),
        Ast::Literal { value, .. } => json!({"n":"Literal","value":to_tagged(value)}),
        Ast::MultiList { elements, .. } => {
            json!({"n":"MultiList","args":elements.iter().map(|x| ast_to_json(x, offs)).collect::<Vec<_>>()})
        }
        Ast::MultiHash { elements, .. } => {
            json!({"n":"MultiHash","kvs":elements.iter().map(|kv| json!({"k":cps(&kv.key),"v":ast_to_json(&kv.value, offs)})).collect::<Vec<_>>()})
        }
        Ast::Not { node, .. } => json!({"n":"Not","l":ast_to_json(node, offs)}),
        Ast::Projection { lhs, rhs, .. } => json!({"n":"Projection","l":ast_to_json(lhs, offs),"r":ast_to_json(rhs, offs)}),
        Ast::ObjectValues { node, .. } => json!({"n":"ObjectValues","l":ast_to_json(node, offs)}),
        Ast::And { lhs, rhs, .. } => json!({"n":"And","l":ast_to_json(lhs, offs),"r":ast_to_json(rhs, offs)}),
        Ast::Or { lhs, rhs, .. } => json!({"n":"Or","l":ast_to_json(lhs, offs),"r":ast_to_json(rhs, offs)}),
        Ast::Slice { start, stop, step, .. } => {
            json!({"n":"Slice","start":opt(*start),"stop":opt(*stop),"step":step})
        }
        Ast::Subexpr { lhs, rhs, .. } => json!({"n":"Subexpr","l":ast_to_json(lhs, offs),"r":ast_to_json(rhs, offs)}),
    };
    if offs {
        let o = ast_offset(a);
        v.as_object_mut().unwrap().insert("off".to_string(), json!(o));
    }
    v
}

pub fn ast_offset(a: &Ast) -> usize {
    match a {
        Ast::Comparison { offset, .. }
        | Ast::Condition { offset, .. }
        | Ast::Identity { offset }
        | Ast::Expref { offset, .. }
        | Ast::Flatten { offset, .. }
        | Ast::Function { offset, .. }
        | Ast::Field { offset, .. }
        | Ast::Index { offset, .. }
        | Ast::Literal { offset, .. }
        | Ast::MultiList { offset, .. }
        | Ast::MultiHash { offset, .. }
        | Ast::Not { offset, .. }
        | Ast::Projection { offset, .. }
        | Ast::ObjectValues { offset, .. }
        | Ast::And { offset, .. }
        | Ast::Or { offset, .. }
        | Ast::Slice { offset, .. }
        | Ast::Subexpr { offset, .. } => *offset,
    }
}

pub fn opt(o: Option<i32>) -> Value {
    match o {
        Some(n) => json!({"has":true,"v":n}),
        None => json!({"has":false,"v":0}),
    }
}

pub fn unopt(v: &Value) -> Option<i32> {
    if v["has"].as_bool().unwrap_or(false) {
        Some(v["v"].as_i64().unwrap_or(0) as i32)
    } else {
        None
    }
}

pub fn err_to_json(e: &JmespathError, text: &str) -> Value {
    let (class, kind, detail) = match &e.reason {
        ErrorReason::Parse(m) => ("parse", "parse", json!({"msg":ascii_cps(m)})),
        ErrorReason::Runtime(r) => (
            "runtime",
            match r {
                RuntimeError::InvalidSlice => "invalid_slice",
                RuntimeError::TooManyArguments { .. } => "too_many_arguments",
                RuntimeError::NotEnoughArguments { .. } => "not_enough_arguments",
                RuntimeError::UnknownFunction(_) => "unknown_function",
                RuntimeError::InvalidType { .. } => "invalid_type",
                RuntimeError::InvalidReturnType { .. } => "invalid_return_type",
                // an error kind this harness does not know (added to the library later): recorded as such, judged by the specification
                #[allow(unreachable_patterns)]
                _ => "other_runtime_error",
            },
            match r {
                RuntimeError::TooManyArguments { expected, actual } | RuntimeError::NotEnoughArguments { expected, actual } => {
                    json!({"expected":expected,"actual":actual})
                }
                RuntimeError::InvalidType { position, expected, actual } => json!({"position":position,"expected":ascii_cps(expected),"actual":ascii_cps(actual)}),
                RuntimeError::InvalidReturnType { position, invocation, expected, actual } => {
                    json!({"position":position,"invocation":invocation,"expected":ascii_cps(expected),"actual":ascii_cps(actual)})
                }
                _ => json!({}),
            },
        ),
    };
    // character offset of the byte offset, if it is on a character boundary of the carried expression
    let on_boundary = e.offset <= e.expression.len() && e.expression.is_char_boundary(e.offset);
    let char_off: i64 = if on_boundary { e.expression[..e.offset].chars().count() as i64 } else { -1 };
    json!({"class":class,"kind":kind,"detail":detail,"offset":e.offset as i64,"char_offset":char_off,
           "line":e.line as i64,"col":e.column as i64,"expr_same":e.expression == text,
           "expr_empty":e.expression.is_empty()})
}

pub fn outcome(r: &Result<Rcvar, JmespathError>, text: &str) -> Value {
    match r {
        Ok(v) => json!({"ok":to_tagged(v)}),
        Err(e) => json!({"err":err_to_json(e, text)}),
    }
}

/// Run `f`; a panic in the code under test is data.
pub fn guarded<F: FnOnce() -> Value>(f: F) -> Value {
    match catch_unwind(AssertUnwindSafe(f)) {
        Ok(v) => v,
        Err(p) => {
            let msg = if let Some(s) = p.downcast_ref::<&str>() {
                s.to_string()
            } else if let Some(s) = p.downcast_ref::<String>() {
                s.clone()
            } else {
                "panic".to_string()
            };
            json!({"panic":ascii_cps(&msg)})
        }
    }
}

/// the sign bit of a zero (field z of a tagged number) is for building documents only: for the specification -0.0 is the number 0
pub fn without_sign_of_zero(v: &Value) -> Value {
    match v {
        Value::Array(a) => Value::Array(a.iter().map(without_sign_of_zero).collect()),
        Value::Object(m) => {
            let num = m.get("t").and_then(|t| t.as_str()) == Some("num");
            Value::Object(m.iter().filter(|(k, _)| !(num && k.as_str() == "z")).map(|(k, x)| (k.clone(), without_sign_of_zero(x))).collect())
        }
        other => other.clone(),
    }
}

