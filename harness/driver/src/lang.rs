//! Language engine runner (C03, C04): parse / compile an expression text, optionally also its parenthesised
//! spelling, and search both against the documents of the case.  Records only.

use crate::val::*;
use serde_json::{json, Value};

/// {"ok":bool,"ast":AST|{"n":"ERR"},"errclass":"none|parse|runtime|panic","err":ERR?}
pub fn parse_obs(text: &str) -> Value {
    guarded(|| match jmespath::parse(text) {
        Ok(a) => {
            // the tree exposed through compile() must be the same tree
            let same = match jmespath::compile(text) {
                Ok(e) => e.as_ast() == &a,
                Err(_) => false,
            };
            json!({"ok":true,"ast":ast_to_json(&a, false),"errclass":"none","compile_same":same})
        }
        Err(e) => {
            // compile() must fail too, and its own error must carry the same text and coordinates
            let c = jmespath::compile(text);
            let j = err_to_json(&e, text);
            let cj = match &c {
                Err(ce) => err_to_json(ce, text),
                Ok(_) => json!({"none":true}),
            };
            json!({"ok":false,"ast":{"n":"ERR"},"errclass":j["class"].clone(),"err":j,"cerr":cj,"compile_same":c.is_err()})
        }
    })
}

/// documents shared by all cases of a file: written once by the TLC generator to $LANG_DOCS
fn pool_docs() -> Option<Vec<Value>> {
    thread_local! { static POOL: std::cell::RefCell<Option<Option<Vec<Value>>>> = std::cell::RefCell::new(None); }
    POOL.with(|p| {
        let mut p = p.borrow_mut();
        if p.is_none() {
            let v = std::env::var("LANG_DOCS").ok().and_then(|f| std::fs::read_to_string(f).ok()).and_then(|s| {
                serde_json::from_str::<Value>(s.lines().next().unwrap_or("")).ok()
            });
            *p = Some(v.and_then(|v| v["docs"].as_array().cloned()));
        }
        p.as_ref().unwrap().clone()
    })
}

fn fix_panic(v: Value) -> Value {
    if v.get("panic").is_some() {
        json!({"ok":false,"ast":{"n":"ERR"},"errclass":"panic","panic":v["panic"].clone(),"compile_same":true})
    } else {
        v
    }
}

pub fn run_case(case: &Value) -> Value {
    let mut obs = case.clone();
    let text = uncps(&case["text"]);
    let m = obs.as_object_mut().unwrap();
    m.insert("parse".into(), fix_panic(parse_obs(&text)));
    if let Some(pt) = case.get("ptext") {
        let ptext = uncps(pt);
        m.insert("pparse".into(), fix_panic(parse_obs(&ptext)));
        let pool = pool_docs();
        if let Some(docs) = case.get("docs").and_then(|d| d.as_array()).or(pool.as_ref()) {
            let outs: Vec<Value> = docs.iter().map(|d| crate::search::compile_and_search(&text, d)).collect();
            let pouts: Vec<Value> = docs.iter().map(|d| crate::search::compile_and_search(&ptext, d)).collect();
            m.insert("outs".into(), Value::Array(outs));
            m.insert("pouts".into(), Value::Array(pouts));
            m.remove("docs"); // the judge compares outs with pouts; keep the observation file small
        }
    }
    obs
}
