//! The conformance driver: spells nothing, expects nothing.  It runs the real library on cases and records what
//! it observed, one ndjson line per case (flushed per line so that a crash of the code under test loses nothing).
//!
//!   driver run <engine> <cases.ndjson> <obs.ndjson> [--from K]
//!   driver gen <engine> <seed> <n> <out.ndjson>
#![allow(unused_mut, dead_code, unused_variables)]

mod val;
mod search;
mod slice;
mod lang;
mod rgen;
mod laws;
mod errs;
mod session;
mod jsonrt;
mod serde_rt;
mod varapi;
mod conv;
mod synctrial;
mod cli;

use serde_json::Value;
use std::fs::{File, OpenOptions};
use std::io::{BufRead, BufReader, Write};

fn die(msg: &str) -> ! {
    eprintln!("DRIVER-ERROR {}", msg);
    std::process::exit(3);
}

pub type Runner = fn(&Value) -> Value;

fn runner(engine: &str) -> Runner {
    match engine {
        "search" => search::run_case,
        "slice" => slice::run_case,
        "lang" => lang::run_case,
        "laws" => laws::run_case,
        "errs" => errs::run_case,
        "json" => jsonrt::run_case,
        "serde" => serde_rt::run_case,
        "varapi" => varapi::run_case,
        "conv" => conv::run_case,
        "cli" => cli::run_case,
        _ => die(&format!("unknown engine {}", engine)),
    }
}

fn main() {
    // panics of the code under test are caught and recorded; keep stderr quiet
    std::panic::set_hook(Box::new(|_| {}));
    let args: Vec<String> = std::env::args().collect();
    if args.len() < 2 {
        die("usage");
    }
    match args[1].as_str() {
        "run" => {
            if args.len() < 5 {
                die("usage: run <engine> <cases> <obs> [--from K]");
            }
            let from: usize = if args.len() >= 7 && args[5] == "--from" { args[6].parse().unwrap_or(0) } else { 0 };
            let f = runner(&args[2]);
            let cases = BufReader::new(File::open(&args[3]).unwrap_or_else(|e| die(&format!("open cases: {}", e))));
            let mut out = OpenOptions::new().create(true).append(true).open(&args[4]).unwrap_or_else(|e| die(&format!("open obs: {}", e)));
            for (i, line) in cases.lines().enumerate() {
                if i < from {
                    continue;
                }
                let line = line.unwrap_or_else(|e| die(&format!("read: {}", e)));
                if line.trim().is_empty() {
                    continue;
                }
                let case: Value = serde_json::from_str(&line).unwrap_or_else(|e| die(&format!("case {}: {}", i, e)));
                let obs = f(&case);
                let mut s = serde_json::to_string(&obs).unwrap();
                s.push('\n');
                out.write_all(s.as_bytes()).unwrap_or_else(|e| die(&format!("write: {}", e)));
            }
        }
        "gen" => {
            if args.len() < 6 {
                die("usage: gen <engine> <seed> <n> <out>");
            }
            let seed: u64 = args[3].parse().unwrap_or(0);
            let n: usize = args[4].parse().unwrap_or(0);
            let maxlen: i32 = std::env::var("GEN_MAXLEN").ok().and_then(|x| x.parse().ok()).unwrap_or(30);
            let mut out = std::io::BufWriter::new(File::create(&args[5]).unwrap_or_else(|e| die(&format!("create: {}", e))));
            let recs = match args[2].as_str() {
                "slice" => slice::gen(seed, n),
                "lang-toks" => rgen::gen_toks(seed, n, maxlen),
                "lang-text" => rgen::gen_texts(seed, n, maxlen),
                "eval" => rgen::gen_eval(seed, n, maxlen),
                "calls" => rgen::gen_calls(seed, n),
                "strings" => rgen::gen_strings(seed, n, maxlen),
                "json" => rgen::gen_json(seed, n),
                _ => die("unknown generator"),
            };
            for r in recs {
                writeln!(out, "{}", serde_json::to_string(&r).unwrap()).unwrap();
            }
        }
        "session-replay" => {
            // driver session-replay <histories> <events> <meta.json>
            let meta: Value = serde_json::from_str(&std::fs::read_to_string(&args[4]).unwrap_or_default()).unwrap_or(Value::Null);
            session::replay(&args[2], &args[3], &meta);
        }
        "session-random" => {
            let seed: u64 = args[2].parse().unwrap_or(0);
            session::random(seed, args[3].parse().unwrap_or(1), args[4].parse().unwrap_or(10), &args[5]);
        }
        "session-soak-concurrent" => {
            let seed: u64 = args[2].parse().unwrap_or(0);
            session::soak_concurrent(seed, args[3].parse().unwrap_or(4), args[4].parse().unwrap_or(10), &args[5]);
        }
        "session-soak" => {
            let seed: u64 = args[2].parse().unwrap_or(0);
            session::soak(seed, args[3].parse().unwrap_or(1), args[4].parse().unwrap_or(10), &args[5]);
        }
        "sync-lockstep" => {
            synctrial::lockstep(args[2].parse().unwrap_or(0), args[3].parse().unwrap_or(4), args[4].parse().unwrap_or(10), &args[5], &args[6]);
        }
        "sync-trial" => {
            synctrial::trial(args[2].parse().unwrap_or(0), args[3].parse().unwrap_or(4), args[4].parse().unwrap_or(10), &args[5], &args[6]);
        }
        "ast" => {
            // debugging aid: driver ast '<expr>' ['<json doc>']
            match jmespath::parse(&args[2]) {
                Ok(a) => println!("{}", val::ast_to_json(&a, false)),
                Err(e) => println!("ERR {}", e),
            }
            if args.len() > 3 {
                let e = jmespath::compile(&args[2]);
                if let Ok(e) = e {
                    println!("{:?}", e.search(jmespath::Variable::from_json(&args[3]).unwrap()).map(|v| v.to_string()));
                }
            }
        }
        _ => die("unknown command"),
    }
}
