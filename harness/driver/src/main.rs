fn main() { println!("{:?}", jmespath::compile("a.b").unwrap().as_ast()); }
