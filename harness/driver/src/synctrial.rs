//! C16 runner (built with `--features sync`): one process = one trial.  N threads are released from a barrier; the first
//! thing each does is compile through the shared default runtime (its first use races); then every thread searches
//! shared compiled expressions on shared documents.  Each thread logs its own events with its own sequence number.
//!
//!   driver sync-trial <seed> <threads> <iters> <events.ndjson> <cases.ndjson>
//! cases: lines {"text":[cps],"doc":VAL} (TLC-generated); the events carry text, doc and the observed outcome.

#[cfg(feature = "sync")]
pub fn trial(seed: u64, nthreads: usize, iters: usize, out: &str, cases: &str) {
    use crate::val::*;
    use rand::rngs::StdRng;
    use rand::{Rng, SeedableRng};
    use serde_json::{json, Value};
    use std::io::Write;
    use std::sync::{Arc, Barrier, Mutex};

    let pool: Vec<Value> = std::fs::read_to_string(cases).unwrap_or_default().lines().filter_map(|l| serde_json::from_str(l).ok()).collect();
    if pool.is_empty() {
        eprintln!("DRIVER-ERROR no cases");
        std::process::exit(3);
    }
    let texts: Vec<String> = pool.iter().map(|c| uncps(&c["text"])).collect();
    // shared documents: parsed before the threads start (Variable::from_json does not touch the default runtime)
    let docs: Vec<jmespath::Rcvar> = pool.iter().map(|c| tagged_to_var(&c["doc"]).unwrap()).collect();
    let docs_before: Vec<String> = docs.iter().map(|d| d.to_string()).collect();
    let shared_docs = Arc::new(docs);
    let docs_text: Arc<Vec<String>> = Arc::new(docs_before.clone());
    // expressions shared between threads are compiled by thread 0 and published through this slot
    let shared_exprs: Arc<Mutex<Option<Arc<Vec<Result<jmespath::Expression<'static>, Value>>>>>> = Arc::new(Mutex::new(None));
    let barrier = Arc::new(Barrier::new(nthreads));
    let results: Arc<Mutex<Vec<Value>>> = Arc::new(Mutex::new(vec![]));
    let mut handles = vec![];
    for t in 0..nthreads {
        let (barrier, shared_docs, shared_exprs, results) = (barrier.clone(), shared_docs.clone(), shared_exprs.clone(), results.clone());
        let texts = texts.clone();
        let pool = pool.clone();
        let docs_text = docs_text.clone();
        handles.push(std::thread::spawn(move || {
            let mut rng = StdRng::seed_from_u64(seed.wrapping_mul(1000).wrapping_add(t as u64));
            let mut log: Vec<Value> = vec![];
            let mut seq = 0u64;
            barrier.wait();
            // first use of DEFAULT_RUNTIME: every thread compiles at once
            let first = rng.gen_range(0..texts.len());
            let own = jmespath::compile(&texts[first]);
            if t == 0 {
                // (a text that does not compile is published with the failure itself, so that it reads the same whoever reports it)
                let all: Vec<Result<jmespath::Expression<'static>, Value>> =
                    texts.iter().map(|s| jmespath::compile(s).map_err(|e| json!({"err":err_to_json(&e, s),"stage":"compile"}))).collect();
                *shared_exprs.lock().unwrap() = Some(Arc::new(all));
            }
            // the hot loop only searches and keeps the raw results: abstraction and logging happen afterwards, so that the threads
            // spend their time inside the library, overlapping with each other
            enum Raw {
                Done(Result<jmespath::Rcvar, jmespath::JmespathError>),
                NoCompile(Value),
                Panic(Value),
            }
            let mut raw: Vec<(usize, Raw)> = Vec::with_capacity(iters);
            for _ in 0..iters {
                let i = rng.gen_range(0..texts.len());
                let shared = shared_exprs.lock().unwrap().clone();
                let use_shared = shared.is_some() && rng.gen_bool(0.6);
                // one search in four reads its document again from JSON text inside the loop (the JSON reader runs concurrently with
                // whatever the other threads are inside of)
                let reparse = rng.gen_bool(0.25);
                let r = std::panic::catch_unwind(std::panic::AssertUnwindSafe(|| {
                    if reparse {
                        let d = match jmespath::Variable::from_json(&docs_text[i]) {
                            Ok(d) => d,
                            Err(_) => return Raw::NoCompile(json!({"harness":ascii_cps("document does not parse again")})),
                        };
                        match jmespath::compile(&texts[i]) {
                            Ok(e) => Raw::Done(e.search(d)),
                            Err(e) => Raw::NoCompile(json!({"err":err_to_json(&e, &texts[i]),"stage":"compile"})),
                        }
                    } else if use_shared {
                        match &shared.unwrap()[i] {
                            Ok(e) => Raw::Done(e.search(shared_docs[i].clone())),
                            Err(v) => Raw::NoCompile(v.clone()),
                        }
                    } else if i == first {
                        match &own {
                            Ok(e) => Raw::Done(e.search(shared_docs[i].clone())),
                            Err(e) => Raw::NoCompile(json!({"err":err_to_json(e, &texts[i]),"stage":"compile"})),
                        }
                    } else {
                        match jmespath::compile(&texts[i]) {
                            Ok(e) => Raw::Done(e.search(shared_docs[i].clone())),
                            Err(e) => Raw::NoCompile(json!({"err":err_to_json(&e, &texts[i]),"stage":"compile"})),
                        }
                    }
                }));
                raw.push((i, r.unwrap_or_else(|_| Raw::Panic(json!({"panic":ascii_cps("panic in a searching thread")})))));
            }
            // a thread logs each distinct (case, outcome) once, with the number of times it observed it
            let mut seen: std::collections::HashMap<(usize, String), usize> = std::collections::HashMap::new();
            for (i, r) in raw {
                let out = match r {
                    Raw::Done(res) => guarded(|| outcome(&res, &texts[i])),
                    Raw::NoCompile(v) | Raw::Panic(v) => v,
                };
                seq += 1;
                let key = (i, out.to_string());
                if let Some(&at) = seen.get(&key) {
                    let m = log[at]["mult"].as_u64().unwrap_or(1) + 1;
                    log[at]["mult"] = json!(m);
                    continue;
                }
                seen.insert(key, log.len());
                log.push(json!({"e":"sync","thr":t,"seq":seq,"mult":1,"text":pool[i]["text"],"doc":pool[i]["doc"],"out":out}));
            }
            results.lock().unwrap().extend(log);
        }));
    }
    let mut panicked = 0;
    for h in handles {
        if h.join().is_err() {
            panicked += 1;
        }
    }
    let same = shared_docs.iter().zip(docs_before.iter()).all(|(d, b)| &d.to_string() == b);
    let mut f = std::fs::OpenOptions::new().create(true).append(true).open(out).unwrap();
    let evs = results.lock().unwrap();
    for e in evs.iter() {
        writeln!(f, "{}", serde_json::to_string(e).unwrap()).unwrap();
    }
    if panicked > 0 || !same {
        writeln!(f, "{}", serde_json::to_string(&json!({"e":"sync","thr":-1,"seq":0,"text":pool[0]["text"],"doc":pool[0]["doc"],
                 "out":{"thread_panics":panicked,"docs_same":same}})).unwrap()).unwrap();
    }
}

/// Lock-step trial: in every round thread 0 publishes a FRESH runtime with the built-ins registered (so everything a runtime or a
/// function object initialises lazily is initialised again, under contention), all threads leave a spin barrier together, compile the
/// same few expressions through that runtime and search them in the same order.  Ill-typed and well-typed calls are in the pool:
/// an error a sequential run reports must be reported under every schedule.
///   driver sync-lockstep <seed> <threads> <rounds> <events.ndjson> <cases.ndjson>
#[cfg(feature = "sync")]
pub fn lockstep(seed: u64, nthreads: usize, rounds: usize, out: &str, cases: &str) {
    use crate::val::*;
    use rand::rngs::StdRng;
    use rand::{Rng, SeedableRng};
    use serde_json::{json, Value};
    use std::io::Write;
    use std::sync::atomic::{AtomicUsize, Ordering};
    use std::sync::{Arc, Mutex, RwLock};

    let pool: Vec<Value> = std::fs::read_to_string(cases).unwrap_or_default().lines().filter_map(|l| serde_json::from_str(l).ok()).collect();
    if pool.is_empty() {
        eprintln!("DRIVER-ERROR no cases");
        std::process::exit(3);
    }
    let texts: Vec<String> = pool.iter().map(|c| uncps(&c["text"])).collect();
    let docs: Arc<Vec<jmespath::Rcvar>> = Arc::new(pool.iter().map(|c| tagged_to_var(&c["doc"]).unwrap()).collect());
    let per_round = 6usize;
    // the schedule of cases is fixed before the threads start: every thread walks the same list
    let mut rng = StdRng::seed_from_u64(seed ^ 0x10c5);
    // each round concentrates on ONE function: the cases are grouped by the name before the first "(" and a round draws all its
    // cases from one group, so that the threads meet inside the same function object at the same time
    let mut groups: std::collections::BTreeMap<String, Vec<usize>> = std::collections::BTreeMap::new();
    for (i, t) in texts.iter().enumerate() {
        groups.entry(t.split('(').next().unwrap_or("").trim().to_string()).or_default().push(i);
    }
    // rounds walk through the groups whose key is a plain function name in turn (every function gets its rounds in every trial);
    // every third round is drawn from the remaining groups (calls inside projections, filters, expression references)
    let plain: Vec<String> = groups.keys().filter(|k| k.chars().all(|c| c.is_ascii_alphanumeric() || c == '_')).cloned().collect();
    let other: Vec<String> = groups.keys().filter(|k| !plain.contains(k)).cloned().collect();
    let offset = rng.gen_range(0..plain.len().max(1));
    let plan: Arc<Vec<Vec<usize>>> = Arc::new(
        (0..rounds)
            .map(|r| {
                let key = if r % 3 == 2 && !other.is_empty() { &other[rng.gen_range(0..other.len())] } else { &plain[(offset + r - r / 3) % plain.len()] };
                let g = &groups[key];
                (0..per_round).map(|_| g[rng.gen_range(0..g.len())]).collect()
            })
            .collect(),
    );
    let current: Arc<RwLock<Option<&'static jmespath::Runtime>>> = Arc::new(RwLock::new(None));
    let arrived = Arc::new(AtomicUsize::new(0));
    let arrived_case = Arc::new(AtomicUsize::new(0));
    let reps = 60usize;
    let results: Arc<Mutex<Vec<Value>>> = Arc::new(Mutex::new(vec![]));
    let mut handles = vec![];
    for t in 0..nthreads {
        let (plan, current, arrived, arrived_case, results, docs) = (plan.clone(), current.clone(), arrived.clone(), arrived_case.clone(), results.clone(), docs.clone());
        let texts = texts.clone();
        let pool = pool.clone();
        handles.push(std::thread::spawn(move || {
            let mut log: Vec<Value> = vec![];
            let mut seq = 0u64;
            let spin = |target: usize| {
                arrived.fetch_add(1, Ordering::SeqCst);
                while arrived.load(Ordering::SeqCst) < target {
                    std::hint::spin_loop();
                }
            };
            let spin_case = |k: usize| {
                arrived_case.fetch_add(1, Ordering::SeqCst);
                while arrived_case.load(Ordering::SeqCst) < k * nthreads {
                    std::hint::spin_loop();
                }
            };
            for (r, round) in plan.iter().enumerate() {
                if t == 0 {
                    let mut rt = jmespath::Runtime::new();
                    rt.register_builtin_functions();
                    *current.write().unwrap() = Some(Box::leak(Box::new(rt)));
                }
                spin((2 * r + 1) * nthreads);          // the runtime of this round is published
                let rt: &'static jmespath::Runtime = current.read().unwrap().unwrap();
                for (ci, &i) in round.iter().enumerate() {
                    // all threads enter the same case together and repeat it in a tight loop: they are inside the same function at the
                    // same time, again and again; each distinct outcome is logged once with its multiplicity
                    spin_case(r * per_round + ci + 1);
                    let compiled = rt.compile(&texts[i]);
                    let mut seen: Vec<(Value, u64)> = vec![];
                    for _ in 0..reps {
                        let outv = guarded(|| match &compiled {
                            Ok(e) => outcome(&e.search(docs[i].clone()), &texts[i]),
                            Err(e) => json!({"err":err_to_json(e, &texts[i]),"stage":"compile"}),
                        });
                        match seen.iter_mut().find(|(v, _)| *v == outv) {
                            Some((_, m)) => *m += 1,
                            None => seen.push((outv, 1)),
                        }
                    }
                    for (outv, m) in seen {
                        seq += 1;
                        log.push(json!({"e":"sync","thr":t,"seq":seq,"mult":m,"text":pool[i]["text"],"doc":pool[i]["doc"],"out":outv}));
                    }
                }
                spin((2 * r + 2) * nthreads);          // nobody still uses it when thread 0 replaces it
            }
            results.lock().unwrap().extend(log);
        }));
    }
    let mut panicked = 0;
    for h in handles {
        if h.join().is_err() {
            panicked += 1;
        }
    }
    let mut f = std::fs::OpenOptions::new().create(true).append(true).open(out).unwrap();
    for e in results.lock().unwrap().iter() {
        writeln!(f, "{}", serde_json::to_string(e).unwrap()).unwrap();
    }
    if panicked > 0 {
        writeln!(f, "{}", serde_json::to_string(&json!({"e":"sync","thr":-1,"seq":0,"text":pool[0]["text"],"doc":pool[0]["doc"],
                 "out":{"thread_panics":panicked}})).unwrap()).unwrap();
    }
}

#[cfg(not(feature = "sync"))]
pub fn lockstep(_seed: u64, _nthreads: usize, _rounds: usize, _out: &str, _cases: &str) {
    eprintln!("DRIVER-ERROR sync-lockstep needs the driver built with --features sync");
    std::process::exit(3);
}

#[cfg(not(feature = "sync"))]
pub fn trial(_seed: u64, _nthreads: usize, _iters: usize, _out: &str, _cases: &str) {
    eprintln!("DRIVER-ERROR sync-trial needs the driver built with --features sync");
    std::process::exit(3);
}
