//! C16 runner (built with `--features sync`): one process = one trial.  N threads are released from a barrier; the first
//! thing each does is compile through the shared default runtime (its first use races); then every thread searches
//! shared compiled expressions on shared documents.  Each thread logs its own events with its own sequence number.
//!
//!   driver sync-trial <seed> <threads> <iters> <events.ndjson> <cases.ndjson>
//! cases: lines {"text":[cps],"doc":VAL} (TLC-generated); the events carry text, doc and the observed outcome.

#[cfg(feature = "sync")]
pub fn trial(seed: u64, nthreads: usize, iters: usize, out: &str, cases: &str) {
    use crate::val::*;
    use rand::rngs::StdRng;
    use rand::{Rng, SeedableRng};
    use serde_json::{json, Value};
    use std::io::Write;
    use std::sync::{Arc, Barrier, Mutex};

    let pool: Vec<Value> = std::fs::read_to_string(cases).unwrap_or_default().lines().filter_map(|l| serde_json::from_str(l).ok()).collect();
    if pool.is_empty() {
        eprintln!("DRIVER-ERROR no cases");
        std::process::exit(3);
    }
    let texts: Vec<String> = pool.iter().map(|c| uncps(&c["text"])).collect();
    // shared documents: parsed before the threads start (Variable::from_json does not touch the default runtime)
    let docs: Vec<jmespath::Rcvar> = pool.iter().map(|c| tagged_to_var(&c["doc"]).unwrap()).collect();
    let docs_before: Vec<String> = docs.iter().map(|d| d.to_string()).collect();
    let shared_docs = Arc::new(docs);
    // expressions shared between threads are compiled by thread 0 and published through this slot
    let shared_exprs: Arc<Mutex<Option<Arc<Vec<Option<jmespath::Expression<'static>>>>>>> = Arc::new(Mutex::new(None));
    let barrier = Arc::new(Barrier::new(nthreads));
    let results: Arc<Mutex<Vec<Value>>> = Arc::new(Mutex::new(vec![]));
    let mut handles = vec![];
    for t in 0..nthreads {
        let (barrier, shared_docs, shared_exprs, results) = (barrier.clone(), shared_docs.clone(), shared_exprs.clone(), results.clone());
        let texts = texts.clone();
        let pool = pool.clone();
        handles.push(std::thread::spawn(move || {
            let mut rng = StdRng::seed_from_u64(seed.wrapping_mul(1000).wrapping_add(t as u64));
            let mut log: Vec<Value> = vec![];
            let mut seq = 0u64;
            barrier.wait();
            // first use of DEFAULT_RUNTIME: every thread compiles at once
            let first = rng.gen_range(0..texts.len());
            let own = jmespath::compile(&texts[first]);
            if t == 0 {
                let all: Vec<Option<jmespath::Expression<'static>>> = texts.iter().map(|s| jmespath::compile(s).ok()).collect();
                *shared_exprs.lock().unwrap() = Some(Arc::new(all));
            }
            for _ in 0..iters {
                let i = rng.gen_range(0..texts.len());
                let out = guarded(|| {
                    let shared = shared_exprs.lock().unwrap().clone();
                    let use_shared = shared.is_some() && rng.gen_bool(0.6);
                    if use_shared {
                        match &shared.unwrap()[i] {
                            Some(e) => outcome(&e.search(shared_docs[i].clone()), &texts[i]),
                            None => json!({"err":{"class":"parse","kind":"parse"},"stage":"compile"}),
                        }
                    } else if i == first {
                        match &own {
                            Ok(e) => outcome(&e.search(shared_docs[i].clone()), &texts[i]),
                            Err(e) => json!({"err":err_to_json(e, &texts[i]),"stage":"compile"}),
                        }
                    } else {
                        match jmespath::compile(&texts[i]) {
                            Ok(e) => outcome(&e.search(shared_docs[i].clone()), &texts[i]),
                            Err(e) => json!({"err":err_to_json(&e, &texts[i]),"stage":"compile"}),
                        }
                    }
                });
                seq += 1;
                log.push(json!({"e":"sync","thr":t,"seq":seq,"text":pool[i]["text"],"doc":pool[i]["doc"],"out":out}));
            }
            results.lock().unwrap().extend(log);
        }));
    }
    let mut panicked = 0;
    for h in handles {
        if h.join().is_err() {
            panicked += 1;
        }
    }
    let same = shared_docs.iter().zip(docs_before.iter()).all(|(d, b)| &d.to_string() == b);
    let mut f = std::fs::OpenOptions::new().create(true).append(true).open(out).unwrap();
    let evs = results.lock().unwrap();
    for e in evs.iter() {
        writeln!(f, "{}", serde_json::to_string(e).unwrap()).unwrap();
    }
    if panicked > 0 || !same {
        writeln!(f, "{}", serde_json::to_string(&json!({"e":"sync","thr":-1,"seq":0,"text":pool[0]["text"],"doc":pool[0]["doc"],
                 "out":{"thread_panics":panicked,"docs_same":same}})).unwrap()).unwrap();
    }
}

#[cfg(not(feature = "sync"))]
pub fn trial(_seed: u64, _nthreads: usize, _iters: usize, _out: &str, _cases: &str) {
    eprintln!("DRIVER-ERROR sync-trial needs the driver built with --features sync");
    std::process::exit(3);
}
