//! Untrusted random generators (impl -> spec direction).  They draw abstract token sequences / texts; they never
//! say what the outcome should be -- TLC spells (where asked), lexes and judges.

use crate::val::cps;
use rand::rngs::StdRng;
use rand::{Rng, SeedableRng};
use serde_json::{json, Value};

pub struct G {
    pub rng: StdRng,
    pub budget: i32,
}

fn t(k: &str) -> Value {
    json!({ "k": k })
}

impl G {
    pub fn new(seed: u64) -> G {
        G { rng: StdRng::seed_from_u64(seed), budget: 0 }
    }
    fn name(&mut self) -> Vec<u32> {
        let pool = ["a", "b", "c", "d", "e", "f", "g", "h", "foo", "b_1", "A"];
        pool[self.rng.gen_range(0..pool.len())].chars().map(|c| c as u32).collect()
    }
    fn ident(&mut self) -> Value {
        let n = self.name();
        if self.rng.gen_bool(0.15) {
            json!({"k":"QIdent","name":n})
        } else {
            json!({"k":"Ident","name":n})
        }
    }
    fn num(&mut self) -> Value {
        let n: i64 = match self.rng.gen_range(0..8) {
            0 => -1,
            1 => 0,
            2 => 1,
            3 => 2,
            4 => -2,
            5 => 10,
            6 => self.rng.gen_range(-5..6),
            _ => 3,
        };
        json!({"k":"Num","num":n})
    }
    fn lit(&mut self) -> Value {
        let v = match self.rng.gen_range(0..8) {
            0 => json!({"t":"null"}),
            1 => json!({"t":"bool","b":true}),
            2 => json!({"t":"bool","b":false}),
            3 => json!({"t":"num","p":self.rng.gen_range(-3..4),"q":1}),
            4 => json!({"t":"str","s":cps("x")}),
            5 => json!({"t":"str","s":cps("")}),
            6 => json!({"t":"arr","a":[{"t":"num","p":1,"q":1},{"t":"str","s":cps("a")}]}),
            _ => json!({"t":"obj","o":[{"k":cps("a"),"v":{"t":"num","p":2,"q":1}}]}),
        };
        json!({"k":"Lit","val":v})
    }
    fn cmp(&mut self) -> Value {
        let ops = ["eq", "ne", "lt", "le", "gt", "ge"];
        json!({"k":"Cmp","op":ops[self.rng.gen_range(0..6)]})
    }
    /// bracket-specifier tokens
    fn bracket(&mut self, out: &mut Vec<Value>) {
        match self.rng.gen_range(0..7) {
            0 => out.push(t("Flatten")),
            1 => {
                out.push(t("Lbracket"));
                out.push(t("Star"));
                out.push(t("Rbracket"));
            }
            2 | 3 => {
                out.push(t("Lbracket"));
                out.push(self.num());
                out.push(t("Rbracket"));
            }
            4 => {
                out.push(t("Filter"));
                self.expr(out, 2);
                out.push(t("Rbracket"));
            }
            _ => {
                out.push(t("Lbracket"));
                if self.rng.gen_bool(0.6) {
                    out.push(self.num());
                }
                out.push(t("Colon"));
                if self.rng.gen_bool(0.6) {
                    out.push(self.num());
                }
                if self.rng.gen_bool(0.5) {
                    out.push(t("Colon"));
                    if self.rng.gen_bool(0.7) {
                        let mut n = self.num();
                        if n["num"] == 0 {
                            n = json!({"k":"Num","num":1});
                        }
                        out.push(n);
                    }
                }
                out.push(t("Rbracket"));
            }
        }
    }
    fn list(&mut self, out: &mut Vec<Value>, depth: i32, args: bool) {
        let n = self.rng.gen_range(1..4);
        for i in 0..n {
            if i > 0 {
                out.push(t("Comma"));
            }
            if args && self.rng.gen_bool(0.2) {
                out.push(t("Amp"));
            }
            self.expr(out, depth + 1);
        }
    }
    fn dot_rhs(&mut self, out: &mut Vec<Value>, depth: i32) {
        match self.rng.gen_range(0..10) {
            0 => out.push(t("Star")),
            1 => {
                out.push(t("Lbracket"));
                self.list(out, depth, false);
                out.push(t("Rbracket"));
            }
            2 => self.hash(out, depth),
            3 => self.call(out, depth),
            _ => out.push(self.ident()),
        }
    }
    fn hash(&mut self, out: &mut Vec<Value>, depth: i32) {
        out.push(t("Lbrace"));
        let n = self.rng.gen_range(1..3);
        for i in 0..n {
            if i > 0 {
                out.push(t("Comma"));
            }
            out.push(self.ident());
            out.push(t("Colon"));
            self.expr(out, depth + 1);
        }
        out.push(t("Rbrace"));
    }
    fn call(&mut self, out: &mut Vec<Value>, depth: i32) {
        let fns = ["length", "keys", "sort", "not_null", "to_array", "type", "max", "f"];
        let n: Vec<u32> = fns[self.rng.gen_range(0..fns.len())].chars().map(|c| c as u32).collect();
        out.push(json!({"k":"Ident","name":n}));
        out.push(t("Lparen"));
        if self.rng.gen_bool(0.85) {
            self.list(out, depth, true);
        }
        out.push(t("Rparen"));
    }
    fn primary(&mut self, out: &mut Vec<Value>, depth: i32) {
        let deep = depth > 3 || self.budget <= 0;
        match self.rng.gen_range(0..16) {
            0 | 1 | 2 | 3 => out.push(self.ident()),
            4 => out.push(t("At")),
            5 => out.push(self.lit()),
            6 => out.push(t("Star")),
            7 => self.bracket(out),
            8 if !deep => {
                out.push(t("Lparen"));
                self.expr(out, depth + 1);
                out.push(t("Rparen"));
            }
            9 if !deep => {
                out.push(t("Lbracket"));
                self.list(out, depth, false);
                out.push(t("Rbracket"));
            }
            10 if !deep => self.hash(out, depth),
            11 if !deep => self.call(out, depth),
            12 => {
                out.push(t("Not"));
                self.primary(out, depth + 1);
            }
            _ => out.push(self.ident()),
        }
    }
    /// a sentence of the grammar (by construction), roughly `budget` tokens
    pub fn expr(&mut self, out: &mut Vec<Value>, depth: i32) {
        self.primary(out, depth);
        loop {
            self.budget -= 1;
            if self.budget <= 0 || self.rng.gen_bool(if depth == 0 { 0.06 } else { 0.35 }) {
                break;
            }
            match self.rng.gen_range(0..12) {
                0 | 1 | 2 | 3 => {
                    out.push(t("Dot"));
                    self.dot_rhs(out, depth);
                }
                4 | 5 => self.bracket(out),
                6 => {
                    out.push(t("Pipe"));
                    self.primary(out, depth);
                }
                7 => {
                    out.push(t("Or"));
                    self.primary(out, depth);
                }
                8 => {
                    out.push(t("And"));
                    self.primary(out, depth);
                }
                9 => {
                    let c = self.cmp();
                    out.push(c);
                    self.primary(out, depth);
                }
                _ => {
                    out.push(t("Dot"));
                    let i = self.ident();
                    out.push(i);
                }
            }
        }
    }
}

/// random grammar-directed token sequences (sentences by construction)
pub fn gen_toks(seed: u64, n: usize, maxlen: i32) -> Vec<Value> {
    let mut g = G::new(seed ^ 0x70c5);
    let mut out = vec![];
    while out.len() < n {
        g.budget = g.rng.gen_range(3..maxlen.max(4));
        let mut toks = vec![];
        g.expr(&mut toks, 0);
        if toks.len() as i32 <= maxlen * 3 {
            out.push(json!({ "toks": toks }));
        }
    }
    out
}

fn spell_tok(tok: &Value, g: &mut G) -> String {
    let k = tok["k"].as_str().unwrap_or("");
    match k {
        "Ident" => crate::val::uncps(&tok["name"]),
        "QIdent" => format!("\"{}\"", crate::val::uncps(&tok["name"])),
        "Num" => tok["num"].to_string(),
        "Lit" => {
            let j = crate::val::tagged_to_json(&tok["val"]).unwrap_or(Value::Null);
            if let (Some(s), true) = (j.as_str(), g.rng.gen_bool(0.5)) {
                format!("'{}'", s)
            } else {
                format!("`{}`", j)
            }
        }
        "Cmp" => match tok["op"].as_str().unwrap_or("eq") {
            "eq" => "==",
            "ne" => "!=",
            "lt" => "<",
            "le" => "<=",
            "gt" => ">",
            _ => ">=",
        }
        .to_string(),
        "Dot" => ".".into(),
        "Star" => "*".into(),
        "Flatten" => "[]".into(),
        "And" => "&&".into(),
        "Or" => "||".into(),
        "Pipe" => "|".into(),
        "Filter" => "[?".into(),
        "Lbracket" => "[".into(),
        "Rbracket" => "]".into(),
        "Comma" => ",".into(),
        "Colon" => ":".into(),
        "Not" => "!".into(),
        "At" => "@".into(),
        "Amp" => "&".into(),
        "Lparen" => "(".into(),
        "Rparen" => ")".into(),
        "Lbrace" => "{".into(),
        "Rbrace" => "}".into(),
        _ => "?".into(),
    }
}

/// random texts: a generated expression, spelled carelessly, then mutated at character and token level
pub fn gen_texts(seed: u64, n: usize, maxlen: i32) -> Vec<Value> {
    let mut g = G::new(seed ^ 0x7e87);
    let mut out = vec![];
    let junk: Vec<char> = "ab1 -.*[]?|&@{}(),:=<>!'\"`\\\n\té€😀0_#%~;".chars().collect();
    while out.len() < n {
        g.budget = g.rng.gen_range(2..maxlen.max(3));
        let mut toks = vec![];
        g.expr(&mut toks, 0);
        // token-level mutation
        let mode = g.rng.gen_range(0..6);
        if !toks.is_empty() && mode == 1 {
            let i = g.rng.gen_range(0..toks.len());
            toks.remove(i);
        } else if !toks.is_empty() && mode == 2 {
            let i = g.rng.gen_range(0..toks.len());
            let j = g.rng.gen_range(0..toks.len());
            let x = toks[j].clone();
            toks.insert(i, x);
        } else if toks.len() > 1 && mode == 3 {
            let i = g.rng.gen_range(0..toks.len() - 1);
            toks.swap(i, i + 1);
        }
        let mut s = String::new();
        for tk in &toks {
            let w = spell_tok(tk, &mut g);
            if !s.is_empty() && g.rng.gen_bool(0.55) {
                s.push(if g.rng.gen_bool(0.9) { ' ' } else { '\n' });
            }
            s.push_str(&w);
        }
        // character-level mutation
        let mut chars: Vec<char> = s.chars().collect();
        if mode == 4 && !chars.is_empty() {
            let i = g.rng.gen_range(0..chars.len());
            chars[i] = junk[g.rng.gen_range(0..junk.len())];
        } else if mode == 5 {
            let i = g.rng.gen_range(0..=chars.len());
            chars.insert(i, junk[g.rng.gen_range(0..junk.len())]);
        }
        if g.rng.gen_bool(0.05) && !chars.is_empty() {
            let cut = g.rng.gen_range(0..chars.len());
            chars.truncate(cut);
        }
        let text: String = chars.into_iter().collect();
        if text.is_empty() {
            continue;
        }
        out.push(json!({"e":"lang","text":cps(&text)}));
    }
    out
}

/// a random JSON document as a tagged value: keys a..h, small integers and halves, heterogeneous arrays
pub fn rand_doc(g: &mut G, depth: i32) -> Value {
    let leaf = depth <= 0 || g.rng.gen_bool(0.3);
    if leaf {
        return match g.rng.gen_range(0..9) {
            0 => json!({"t":"null"}),
            1 => json!({"t":"bool","b":true}),
            2 => json!({"t":"bool","b":false}),
            3 | 4 => json!({"t":"num","p":g.rng.gen_range(-3..6),"q":1}),
            5 => {
                let p: i64 = 2 * g.rng.gen_range(-3i64..4) + 1;
                json!({"t":"num","p":p,"q":2})
            }
            6 => json!({"t":"str","s":cps("")}),
            7 => json!({"t":"str","s":cps(["a", "b", "ab", "x"][g.rng.gen_range(0..4)])}),
            _ => json!({"t":"arr","a":[]}),
        };
    }
    if g.rng.gen_bool(0.5) {
        let n = g.rng.gen_range(0..6);
        let a: Vec<Value> = (0..n).map(|_| rand_doc(g, depth - 1)).collect();
        json!({"t":"arr","a":a})
    } else {
        let keys = ["a", "b", "c", "d", "e", "f", "g", "h", "foo", "b_1", "A"];
        let mut ks: Vec<&str> = keys.iter().cloned().filter(|_| g.rng.gen_bool(0.45)).collect();
        ks.sort();
        let o: Vec<Value> = ks.iter().map(|k| json!({"k":cps(k),"v":rand_doc(g, depth - 1)})).collect();
        json!({"t":"obj","o":o})
    }
}

/// random (sentence, document) pairs; each sentence is also paired with documents drawn for other sentences
pub fn gen_eval(seed: u64, n: usize, maxlen: i32) -> Vec<Value> {
    let mut g = G::new(seed ^ 0xe7a1);
    let mut out = vec![];
    let mut docs: Vec<Value> = (0..20).map(|_| rand_doc(&mut g, 4)).collect();
    while out.len() < n {
        g.budget = g.rng.gen_range(3..maxlen.max(4));
        let mut toks = vec![];
        g.expr(&mut toks, 0);
        if toks.len() as i32 > maxlen * 3 {
            continue;
        }
        if g.rng.gen_bool(0.3) {
            let i = g.rng.gen_range(0..docs.len());
            docs[i] = rand_doc(&mut g, 4);
        }
        for _ in 0..3 {
            let d = docs[g.rng.gen_range(0..docs.len())].clone();
            out.push(json!({"toks":toks.clone(),"doc":d}));
        }
    }
    out.truncate(n);
    out
}

// ---------------------------------------------------------------------------------------------------------------
// random built-in calls with larger, well-typed (and sometimes ill-typed) arguments
fn rstr(g: &mut G) -> String {
    let pool: Vec<char> = "ab\u{e9}\u{ffff}\u{1f600} z\u{10000}\u{7f}A".chars().collect();
    let n = g.rng.gen_range(0..5);
    (0..n).map(|_| pool[g.rng.gen_range(0..pool.len())]).collect()
}
fn rnum(g: &mut G) -> Value {
    if g.rng.gen_bool(0.25) {
        json!({"t":"num","p":2 * g.rng.gen_range(-9i64..10) + 1,"q":2})
    } else {
        json!({"t":"num","p":g.rng.gen_range(-20i64..40),"q":1})
    }
}
fn tstr(s: &str) -> Value {
    json!({"t":"str","s":cps(s)})
}
fn tobj(mut kvs: Vec<(String, Value)>) -> Value {
    kvs.sort_by(|a, b| a.0.cmp(&b.0));
    kvs.dedup_by(|a, b| a.0 == b.0);
    json!({"t":"obj","o":kvs.into_iter().map(|(k, v)| json!({"k":cps(&k),"v":v})).collect::<Vec<_>>()})
}

pub fn gen_calls(seed: u64, n: usize) -> Vec<Value> {
    let mut g = G::new(seed ^ 0xca11);
    let mut out = vec![];
    let unary_arr = ["sort", "max", "min", "sum", "avg", "reverse", "length", "to_array", "to_string", "type"];
    let by = ["sort_by", "max_by", "min_by"];
    while out.len() < n {
        let shape = g.rng.gen_range(0..10);
        let len = if g.rng.gen_bool(0.3) { g.rng.gen_range(20..200) } else { g.rng.gen_range(0..12) };
        let (text, doc): (String, Value) = match shape {
            0 | 1 => {
                // arrays of numbers or strings through the array functions
                let strs = g.rng.gen_bool(0.4);
                let a: Vec<Value> = (0..len).map(|_| if strs { tstr(&rstr(&mut g)) } else { rnum(&mut g) }).collect();
                let f = unary_arr[g.rng.gen_range(0..unary_arr.len())];
                (format!("{}(a)", f), tobj(vec![("a".into(), json!({"t":"arr","a":a}))]))
            }
            2 | 3 | 4 => {
                // by-functions over records with few distinct keys (ties) and distinguishable payloads
                let nk = g.rng.gen_range(1..5);
                let strs = g.rng.gen_bool(0.3);
                let keys: Vec<Value> = (0..nk).map(|_| if strs { tstr(&rstr(&mut g)) } else { rnum(&mut g) }).collect();
                let a: Vec<Value> = (0..len)
                    .map(|i| tobj(vec![("k".into(), keys[g.rng.gen_range(0..keys.len())].clone()), ("i".into(), json!({"t":"num","p":i,"q":1}))]))
                    .collect();
                let f = by[g.rng.gen_range(0..3)];
                let e = if g.rng.gen_bool(0.8) { "&k" } else { "&not_null(k, `0`)" };
                let wrap = g.rng.gen_range(0..4);
                let call = format!("{}(a, {})", f, e);
                let text = match wrap {
                    0 => format!("{}[*].i", if f == "sort_by" { call } else { format!("[{}]", call) }),
                    1 => format!("map(&i, {})", if f == "sort_by" { call } else { format!("to_array({})", call) }),
                    _ => call,
                };
                (text, tobj(vec![("a".into(), json!({"t":"arr","a":a}))]))
            }
            5 => {
                let s1 = rstr(&mut g);
                let s2 = rstr(&mut g);
                let f = ["contains", "starts_with", "ends_with"][g.rng.gen_range(0..3)];
                (format!("{}(a, b)", f), tobj(vec![("a".into(), tstr(&format!("{}{}", s1, s2))), ("b".into(), tstr(if g.rng.gen_bool(0.5) { &s1 } else { &s2 }))]))
            }
            6 => {
                let a: Vec<Value> = (0..len.min(30)).map(|_| tstr(&rstr(&mut g))).collect();
                ("join(g, a)".into(), tobj(vec![("a".into(), json!({"t":"arr","a":a})), ("g".into(), tstr(&rstr(&mut g)))]))
            }
            7 => {
                let mk = |g: &mut G| -> Value {
                    let n = g.rng.gen_range(0..12);
                    tobj((0..n).map(|_| (rstr(g), rnum(g))).collect())
                };
                let (a, b, c) = (mk(&mut g), mk(&mut g), mk(&mut g));
                let t = ["merge(a, b)", "merge(a, b, c)", "keys(merge(a, b))", "values(merge(c, a))", "length(merge(a, c))", "keys(a)", "values(b)"];
                (t[g.rng.gen_range(0..t.len())].into(), tobj(vec![("a".into(), a), ("b".into(), b), ("c".into(), c)]))
            }
            8 => {
                // unary functions inside a projection and inside another call
                let a: Vec<Value> = (0..len.min(20)).map(|_| rand_doc(&mut g, 2)).collect();
                let f = ["type", "to_array", "to_string", "not_null", "to_number", "length", "abs", "keys"][g.rng.gen_range(0..8)];
                let t = if g.rng.gen_bool(0.5) { format!("a[*].{}(@)", f) } else { format!("map(&{}(@), a)", f) };
                (t, tobj(vec![("a".into(), json!({"t":"arr","a":a}))]))
            }
            _ => {
                let x = rnum(&mut g);
                let f = ["abs", "ceil", "floor", "to_string", "to_number", "type"][g.rng.gen_range(0..6)];
                (format!("{}(a)", f), tobj(vec![("a".into(), x)]))
            }
        };
        out.push(json!({"e":"val","text":cps(&text),"doc":doc}));
    }
    out
}

/// random strings (as code points) with dense delimiter / backslash juxtapositions and characters of all planes
pub fn gen_strings(seed: u64, n: usize, maxlen: i32) -> Vec<Value> {
    let mut g = G::new(seed ^ 0x57a1);
    let hot: Vec<u32> = vec![39, 96, 34, 92, 92, 92, 32, 10, 9, 47, 97, 98, 0xe9, 0x20ac, 0xffff, 0x1f600, 0x10000, 0x10ffff, 0x7f, 0x80, 123, 91, 58, 44];
    let mut out = vec![];
    for _ in 0..n {
        let len = g.rng.gen_range(0..maxlen.max(1));
        let s: Vec<u32> = (0..len)
            .map(|_| {
                if g.rng.gen_bool(0.8) {
                    hot[g.rng.gen_range(0..hot.len())]
                } else {
                    // any scalar value except surrogates and NUL..US control characters other than \t \n
                    loop {
                        let c = g.rng.gen_range(32u32..0x110000);
                        if !(0xd800..0xe000).contains(&c) {
                            break c;
                        }
                    }
                }
            })
            .collect();
        out.push(json!({ "s": s }));
    }
    out
}

// ---------------------------------------------------------------------------------------------------------------
// random JSON texts (C08): numerals with random digit counts and exponents, strings with random escapes, nesting
fn rnumeral(g: &mut G) -> String {
    let mut s = String::new();
    if g.rng.gen_bool(0.3) {
        s.push('-');
    }
    let nd = match g.rng.gen_range(0..6) {
        0 => 1,
        1 => g.rng.gen_range(1..6),
        2 => g.rng.gen_range(14..18),
        3 => g.rng.gen_range(18..22),
        _ => g.rng.gen_range(1..25),
    };
    if g.rng.gen_bool(0.15) {
        s.push('0');
    } else {
        s.push(std::char::from_digit(g.rng.gen_range(1..10), 10).unwrap());
        for _ in 1..nd {
            s.push(std::char::from_digit(g.rng.gen_range(0..10), 10).unwrap());
        }
    }
    if g.rng.gen_bool(0.5) {
        s.push('.');
        for _ in 0..g.rng.gen_range(1..19) {
            s.push(std::char::from_digit(g.rng.gen_range(0..10), 10).unwrap());
        }
    }
    if g.rng.gen_bool(0.5) {
        s.push(if g.rng.gen_bool(0.5) { 'e' } else { 'E' });
        match g.rng.gen_range(0..3) {
            0 => s.push('-'),
            1 => s.push('+'),
            _ => {}
        }
        let e: i32 = match g.rng.gen_range(0..5) {
            0 => g.rng.gen_range(0..5),
            1 => g.rng.gen_range(20..25),
            2 => g.rng.gen_range(290..300),
            _ => g.rng.gen_range(0..300),
        };
        s.push_str(&e.to_string());
    }
    s
}

fn rjstring(g: &mut G) -> String {
    let mut s = String::from("\"");
    for _ in 0..g.rng.gen_range(0..8) {
        let c: u32 = match g.rng.gen_range(0..10) {
            0 => 34,
            1 => 92,
            2 => g.rng.gen_range(0..32),
            3 => 0x1f600,
            4 => g.rng.gen_range(0x80..0x800),
            5 => g.rng.gen_range(0x10000..0x110000),
            _ => g.rng.gen_range(32..127),
        };
        let c = if (0xd800..0xe000).contains(&c) { 0xe9 } else { c };
        let ch = std::char::from_u32(c).unwrap_or('x');
        let style = g.rng.gen_range(0..4);
        if style >= 2 || c < 32 || c == 34 || c == 92 {
            let mut buf = [0u16; 2];
            for u in ch.encode_utf16(&mut buf) {
                if style == 3 {
                    s.push_str(&format!("\\u{:04X}", u));
                } else {
                    s.push_str(&format!("\\u{:04x}", u));
                }
            }
        } else {
            s.push(ch);
        }
    }
    s.push('"');
    s
}

/// {"kind":"num","text":numeral-in-context,"numerals":[numeral]} and {"kind":"struct","text":...}
pub fn gen_json(seed: u64, n: usize) -> Vec<Value> {
    let mut g = G::new(seed ^ 0x7503);
    let mut out = vec![];
    while out.len() < n {
        if g.rng.gen_bool(0.6) {
            let num = rnumeral(&mut g);
            let (text, nums) = match g.rng.gen_range(0..3) {
                0 => (num.clone(), vec![cps(&num)]),
                1 => (format!("[ {}\t,7 ]", num), vec![cps(&num), cps("7")]),
                _ => (format!("{{\"k\" : {}}}", num), vec![cps(&num)]),
            };
            out.push(json!({"e":"json","kind":"num","text":cps(&text),"numerals":nums}));
        } else {
            // strings and small-number structures stay inside the judge's value domain
            let mut parts = vec![];
            for _ in 0..g.rng.gen_range(1..5) {
                let k = rjstring(&mut g);
                let v = match g.rng.gen_range(0..5) {
                    0 => rjstring(&mut g),
                    1 => format!("[{}, {}]", rjstring(&mut g), g.rng.gen_range(-99..100)),
                    2 => "null".to_string(),
                    3 => format!("{{{}:{}}}", rjstring(&mut g), g.rng.gen_range(0..5)),
                    _ => format!("{}.5", g.rng.gen_range(0..50)),
                };
                parts.push(format!("{} :{}", k, v));
            }
            let text = format!("{{{}}}", parts.join(" , "));
            out.push(json!({"e":"json","kind":"struct","text":cps(&text),"numerals":[]}));
        }
    }
    out
}
