//! The public accessor methods of `Variable` (spec/VarApi.tla): one case = a triple of values; every method is called on the
//! first (the second / third are the other operands of compare / == / cmp) and the raw answers are recorded.

use crate::val::*;
use jmespath::ast::Comparator;
use jmespath::Variable;
use serde_json::{json, Value};
use std::cmp::Ordering;

fn ord(o: Ordering) -> i64 {
    match o {
        Ordering::Less => -1,
        Ordering::Equal => 0,
        Ordering::Greater => 1,
    }
}

pub fn run_case(case: &Value) -> Value {
    let mut obs = case.clone();
    let out = guarded(|| {
        let get = |k: &str| tagged_to_var(&case[k]);
        let (v, w, x) = match (get("v"), get("w"), get("x")) {
            (Ok(v), Ok(w), Ok(x)) => (v, w, x),
            _ => return json!({"harness":ascii_cps("value")}),
        };
        let keys: Vec<String> = case["keys"].as_array().map(|a| a.iter().map(uncps).collect()).unwrap_or_default();
        let n = case["n"].as_u64().unwrap_or(3) as usize;
        let fields: Vec<Value> = keys.iter().map(|k| to_tagged(&v.get_field(k))).collect();
        let idx: Vec<Value> = (0..=n).map(|i| to_tagged(&v.get_index(i))).collect();
        let nidx: Vec<Value> = (0..=n).map(|i| to_tagged(&v.get_negative_index(i))).collect();
        let ops = [("eq", Comparator::Equal), ("ne", Comparator::NotEqual), ("lt", Comparator::LessThan), ("le", Comparator::LessThanEqual),
                   ("gt", Comparator::GreaterThan), ("ge", Comparator::GreaterThanEqual)];
        let mut cmp = serde_json::Map::new();
        for (name, c) in ops.iter() {
            cmp.insert(name.to_string(), match v.compare(c, &w) {
                Some(b) => json!({"t":"bool","b":b}),
                None => json!({"t":"null"}),
            });
        }
        let kinds = json!({"null":v.is_null(),"bool":v.is_boolean(),"num":v.is_number(),"str":v.is_string(),"arr":v.is_array(),"obj":v.is_object(),
                           "expref":v.is_expref()});
        let has = json!({"null":v.as_null().is_some(),"bool":v.as_boolean().is_some(),"num":v.as_number().is_some(),"str":v.as_string().is_some(),
                         "arr":v.as_array().is_some(),"obj":v.as_object().is_some(),"expref":v.as_expref().is_some()});
        // the as_X views give the value back
        let back = match &*v {
            Variable::Bool(_) => v.as_boolean().map(|b| json!({"t":"bool","b":b})),
            Variable::String(_) => v.as_string().map(|s| json!({"t":"str","s":cps(s)})),
            Variable::Array(_) => v.as_array().map(|a| json!({"t":"arr","a":a.iter().map(|e| to_tagged(e)).collect::<Vec<_>>()})),
            Variable::Object(_) => v.as_object().map(|_| to_tagged(&v)),
            Variable::Number(_) => v.as_number().and_then(serde_json::Number::from_f64).map(|f| to_tagged(&Variable::Number(f))),
            _ => Some(json!({"t":"null"})),
        };
        json!({"type":ascii_cps(&v.get_type().to_string()),"truthy":v.is_truthy(),"fields":fields,"idx":idx,"nidx":nidx,"cmp":Value::Object(cmp),
               "eq":*v == *w,"ne":*v != *w,"ord":ord((*v).cmp(&*w)),"ord_wx":ord((*w).cmp(&*x)),"ord_vx":ord((*v).cmp(&*x)),
               "pord":(*v).partial_cmp(&*w).map(ord),"is":kinds,"has":has,"back":back})
    });
    obs.as_object_mut().unwrap().insert("out".into(), out);
    obs
}
