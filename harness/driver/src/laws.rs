//! C11 runner: evaluates a compound expression and its parts with the real library only.

use crate::val::*;
use jmespath::ast::{Ast, KeyValuePair};
use jmespath::{Expression, Rcvar, Variable, DEFAULT_RUNTIME};
use serde_json::{json, Value};

fn search_var(text: &str, data: &Rcvar) -> (Value, Option<Rcvar>) {
    let mut res: Option<Rcvar> = None;
    let v = guarded(|| {
        let expr = match jmespath::compile(text) {
            Ok(e) => e,
            Err(e) => return json!({"err":err_to_json(&e, text),"stage":"compile"}),
        };
        let r = expr.search(data.clone());
        if let Ok(ref x) = r {
            res = Some(x.clone());
        }
        outcome(&r, text)
    });
    (v, res)
}

fn compound(law: &str, l: Ast, r: Ast, p: Ast, s_text: &str) -> Option<Ast> {
    let o = 0;
    let bx = Box::new;
    Some(match law {
        "pipe" => Ast::Subexpr { offset: o, lhs: bx(l), rhs: bx(r) },
        "and" => Ast::And { offset: o, lhs: bx(l), rhs: bx(r) },
        "or" => Ast::Or { offset: o, lhs: bx(l), rhs: bx(r) },
        "not" => Ast::Not { offset: o, node: bx(l) },
        "mlist" => Ast::MultiList { offset: o, elements: vec![l, r] },
        "mhash" => Ast::MultiHash {
            offset: o,
            elements: vec![KeyValuePair { key: "x".into(), value: l }, KeyValuePair { key: "y".into(), value: r }],
        },
        "listproj" => Ast::Projection { offset: o, lhs: bx(l), rhs: bx(r) },
        "flatten" => Ast::Projection { offset: o, lhs: bx(Ast::Flatten { offset: o, node: bx(l) }), rhs: bx(r) },
        "valproj" => Ast::Projection { offset: o, lhs: bx(Ast::ObjectValues { offset: o, node: bx(l) }), rhs: bx(r) },
        "filter" => Ast::Projection {
            offset: o,
            lhs: bx(l),
            rhs: bx(Ast::Condition { offset: o, predicate: bx(p), then: bx(r) }),
        },
        "slice" => {
            // the slice node itself is taken from the parse of the subject text "( L ) [a:b:c]"
            match jmespath::parse(s_text).ok()? {
                Ast::Subexpr { rhs, .. } => match *rhs {
                    Ast::Projection { lhs: sl, .. } => Ast::Subexpr {
                        offset: o,
                        lhs: bx(l),
                        rhs: bx(Ast::Projection { offset: o, lhs: sl, rhs: bx(r) }),
                    },
                    _ => return None,
                },
                _ => return None,
            }
        }
        _ => return None,
    })
}

pub fn run_case(case: &Value) -> Value {
    let mut obs = case.clone();
    if let Some(i) = case.get("d").and_then(|x| x.as_u64()) {
        let doc = crate::search::pool_doc(i as usize).unwrap_or(json!({"t":"null"}));
        obs.as_object_mut().unwrap().insert("doc".into(), doc);
    }
    let law = case["law"].as_str().unwrap_or("").to_string();
    let (w, s, l, r, p) = (uncps(&case["W"]), uncps(&case["S"]), uncps(&case["L"]), uncps(&case["R"]), uncps(&case["P"]));
    let doc = match tagged_to_var(&obs["doc"]) {
        Ok(d) => d,
        Err(e) => {
            obs.as_object_mut().unwrap().insert("harness".into(), ascii_cps(&e));
            return obs;
        }
    };
    let mut put = |k: &str, v: Value| {
        obs.as_object_mut().unwrap().insert(k.into(), v);
    };
    put("whole", search_var(&w, &doc).0);
    // the compound built from the parts' public trees
    let whole_ast = guarded(|| {
        let (la, ra, pa) = match (jmespath::parse(&l), jmespath::parse(&r), jmespath::parse(&p)) {
            (Ok(a), Ok(b), Ok(c)) => (a, b, c),
            _ => return json!({"harness":ascii_cps("part does not parse")}),
        };
        match compound(&law, la, ra, pa, &s) {
            Some(ast) => {
                let e = Expression::new(w.clone(), ast, &DEFAULT_RUNTIME);
                outcome(&e.search(doc.clone()), &w)
            }
            None => json!({"harness":ascii_cps("no compound")}),
        }
    });
    put("whole_ast", whole_ast);
    let (lo, lv) = search_var(&l, &doc);
    put("l", lo);
    put("r", search_var(&r, &doc).0);
    let r_on_l = match lv {
        Some(ref v) => search_var(&r, v).0,
        None => json!({"skipped":true}),
    };
    put("r_on_l", r_on_l);
    let (so, sv) = search_var(&s, &doc);
    put("subject", so);
    let mut elems_r = vec![];
    let mut elems_p = vec![];
    if let Some(sv) = sv {
        if let Some(arr) = sv.as_array() {
            for e in arr {
                let (po, pv) = search_var(&p, e);
                elems_p.push(po);
                let go = law != "filter" || pv.map(|x| x.is_truthy()).unwrap_or(false);
                elems_r.push(if go { search_var(&r, e).0 } else { json!({"skipped":true}) });
            }
        }
    }
    put("elems_r", Value::Array(elems_r));
    put("elems_p", Value::Array(elems_p));
    let _ = Variable::Null;
    obs
}
