//! C12 runner for the public error constructor: JmespathError::new(text, byte offset, reason) and its Display.

use crate::val::*;
use jmespath::{ErrorReason, JmespathError};
use serde_json::{json, Value};

pub fn run_case(case: &Value) -> Value {
    if case["kind"] != "coord" {
        return crate::search::run_case(case);
    }
    let mut obs = case.clone();
    let text = uncps(&case["chars"]);
    let k = case["k"].as_u64().unwrap_or(0) as usize;
    let byte: usize = text.chars().take(k).map(|c| c.len_utf8()).sum();
    let out = guarded(|| {
        let e = JmespathError::new(&text, byte, ErrorReason::Parse("boom".to_owned()));
        let shown = format!("{}", e);
        json!({"line":e.line as i64,"col":e.column as i64,"offset":e.offset as i64,"expr_same":e.expression == text,
               "display":cps(&shown)})
    });
    obs.as_object_mut().unwrap().insert("out".into(), out);
    obs
}
