//! Generic runner: compile `text`, search `doc`, abstract the outcome.  Used by every engine whose cases are
//! (expression text, document) pairs.

use crate::val::*;
use serde_json::{json, Value};

/// Compile `text` with the default runtime and search `doc`; returns the OUT record.
pub fn compile_and_search(text: &str, doc: &Value) -> Value {
    compile_and_search_as(text, doc, "")
}

/// `input`: how the document is handed to `search` -- "" as an Rcvar (the default), "value" as an owned serde_json::Value, "ref" as a
/// &serde_json::Value (the conversion `ToJmespath` performs differs between the feature sets; what is searched must not)
pub fn compile_and_search_as(text: &str, doc: &Value, input: &str) -> Value {
    guarded(|| {
        let expr = match jmespath::compile(text) {
            Ok(e) => e,
            Err(e) => return json!({"err":err_to_json(&e, text),"stage":"compile"}),
        };
        if input == "value" || input == "ref" {
            let j = match tagged_to_json(doc) {
                Ok(j) => j,
                Err(e) => return json!({"harness":ascii_cps(&e)}),
            };
            return if input == "ref" { outcome(&expr.search(&j), text) } else { outcome(&expr.search(j), text) };
        }
        let data = match tagged_to_var(doc) {
            Ok(d) => d,
            Err(e) => return json!({"harness":ascii_cps(&e)}),
        };
        outcome(&expr.search(data), text)
    })
}

/// documents shared by the cases of a file ($EVAL_DOCS, written once by the TLC generator); a case refers to one by
/// its 1-based index in field "d" and the observation carries the document itself
pub fn pool_doc(i: usize) -> Option<Value> {
    thread_local! { static POOL: std::cell::RefCell<Option<Vec<Value>>> = std::cell::RefCell::new(None); }
    POOL.with(|p| {
        let mut p = p.borrow_mut();
        if p.is_none() {
            let v = std::env::var("EVAL_DOCS").ok().and_then(|f| std::fs::read_to_string(f).ok()).and_then(|s| {
                serde_json::from_str::<Value>(s.lines().next().unwrap_or("")).ok()
            });
            *p = Some(v.and_then(|v| v["docs"].as_array().cloned()).unwrap_or_default());
        }
        p.as_ref().unwrap().get(i.wrapping_sub(1)).cloned()
    })
}

pub fn run_case(case: &Value) -> Value {
    let mut obs = case.clone();
    if let Some(i) = case.get("d").and_then(|x| x.as_u64()) {
        let doc = pool_doc(i as usize).unwrap_or(json!({"t":"null"}));
        obs.as_object_mut().unwrap().insert("doc".into(), doc);
    }
    let text = uncps(&case["text"]);
    let out = if case.get("share").and_then(|x| x.as_bool()).unwrap_or(false) {
        // results whose sub-values are shared (`[@, @]` chained n times has 2^n paths and n arrays): the result is NOT serialised,
        // only its depth along the first members is reported -- what counts is that the call returns
        guarded(|| {
            let expr = match jmespath::compile(&text) {
                Ok(e) => e,
                Err(e) => return json!({"err":err_to_json(&e, &text),"stage":"compile"}),
            };
            let data = match tagged_to_var(&obs["doc"]) {
                Ok(d) => d,
                Err(e) => return json!({"harness":ascii_cps(&e)}),
            };
            match expr.search(data) {
                Ok(r) => {
                    let mut depth = 0i64;
                    let mut cur = r.clone();
                    loop {
                        let next = match &*cur {
                            jmespath::Variable::Array(a) if !a.is_empty() => a[0].clone(),
                            jmespath::Variable::Object(m) if !m.is_empty() => m.values().next().unwrap().clone(),
                            _ => break,
                        };
                        cur = next;
                        depth += 1;
                        if depth > 100000 {
                            break;
                        }
                    }
                    json!({"ok":{"t":"num","p":depth,"q":1}})
                }
                Err(e) => json!({"err":err_to_json(&e, &text),"stage":"search"}),
            }
        })
    } else if let Some(rt) = case.get("rt").and_then(|x| x.as_str()) {
        // a runtime of the caller's own instead of the shared default one: "empty" has no functions at all,
        // "fresh" has had the built-ins registered
        let rt = rt.to_string();
        guarded(|| {
            let mut runtime = jmespath::Runtime::new();
            if rt == "fresh" {
                runtime.register_builtin_functions();
            }
            let expr = match runtime.compile(&text) {
                Ok(e) => e,
                Err(e) => return json!({"err":err_to_json(&e, &text),"stage":"compile"}),
            };
            let data = match tagged_to_var(&obs["doc"]) {
                Ok(d) => d,
                Err(e) => return json!({"harness":ascii_cps(&e)}),
            };
            outcome(&expr.search(data), &text)
        })
    } else if let Some(dt) = case.get("doctext") {
        // the document is given as JSON text (number spellings, escapes, duplicate keys reach the library's own parser)
        let dtext = uncps(dt);
        guarded(|| {
            let expr = match jmespath::compile(&text) {
                Ok(e) => e,
                Err(e) => return json!({"err":err_to_json(&e, &text),"stage":"compile"}),
            };
            match jmespath::Variable::from_json(&dtext) {
                Ok(d) => outcome(&expr.search(d), &text),
                Err(e) => json!({"docerr":ascii_cps(&e)}),
            }
        })
    } else {
        compile_and_search_as(&text, &obs["doc"], case.get("input").and_then(|x| x.as_str()).unwrap_or(""))
    };
    // (the sign bit of a zero in a document is for building it only: the judge reads -0.0 as the number 0)
    if let Some(d) = obs.get("doc").cloned() {
        obs.as_object_mut().unwrap().insert("doc".into(), without_sign_of_zero(&d));
    }
    let m = obs.as_object_mut().unwrap();
    m.insert("out".into(), out);
    if case.get("want_ast").and_then(|x| x.as_bool()).unwrap_or(false) {
        let a = guarded(|| match jmespath::parse(&text) {
            Ok(a) => json!({"ok":ast_to_json(&a, false)}),
            Err(e) => json!({"err":err_to_json(&e, &text)}),
        });
        m.insert("ast".into(), a);
    }
    obs
}
