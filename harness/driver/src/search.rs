//! Generic runner: compile `text`, search `doc`, abstract the outcome.  Used by every engine whose cases are
//! (expression text, document) pairs.

use crate::val::*;
use serde_json::{json, Value};

/// Compile `text` with the default runtime and search `doc`; returns the OUT record.
pub fn compile_and_search(text: &str, doc: &Value) -> Value {
    guarded(|| {
        let expr = match jmespath::compile(text) {
            Ok(e) => e,
            Err(e) => return json!({"err":err_to_json(&e, text),"stage":"compile"}),
        };
        let data = match tagged_to_var(doc) {
            Ok(d) => d,
            Err(e) => return json!({"harness":ascii_cps(&e)}),
        };
        outcome(&expr.search(data), text)
    })
}

pub fn run_case(case: &Value) -> Value {
    let mut obs = case.clone();
    let text = uncps(&case["text"]);
    let out = compile_and_search(&text, &case["doc"]);
    let m = obs.as_object_mut().unwrap();
    m.insert("out".into(), out);
    if case.get("want_ast").and_then(|x| x.as_bool()).unwrap_or(false) {
        let a = guarded(|| match jmespath::parse(&text) {
            Ok(a) => json!({"ok":ast_to_json(&a, false)}),
            Err(e) => json!({"err":err_to_json(&e, &text)}),
        });
        m.insert("ast".into(), a);
    }
    obs
}
