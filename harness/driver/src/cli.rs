//! C18 runner: runs the real `jp` binary (built from /repo/jmespath-cli/src/main.rs) on an invocation and, in-process, the
//! library on the same expression and input.  Records exit status, stdout, whether stderr is empty, and what the library
//! computed (stage reached, pretty-printed result).

use crate::val::*;
use serde_json::{json, Value};
use std::io::Write;
use std::process::{Command, Stdio};

/// U+E000 in an input text stands for a run of `pad` letters (inputs of more than 64 KiB are described, not carried, by the case)
fn expand(text: String, pad: usize) -> String {
    if pad == 0 || !text.contains('\u{e000}') {
        text
    } else {
        text.replace('\u{e000}', &"a".repeat(pad))
    }
}

pub fn run_case(case: &Value) -> Value {
    let mut obs = case.clone();
    let pad = case.get("pad").and_then(|x| x.as_u64()).unwrap_or(0) as usize;
    let jp = std::env::var("JP_BIN").unwrap_or_else(|_| "jp".into());
    let dir = std::env::temp_dir().join(format!("verif-cli-{}", std::process::id()));
    let _ = std::fs::create_dir_all(&dir);
    // files of the invocation
    if let Some(files) = case["files"].as_array() {
        for f in files {
            let _ = std::fs::write(dir.join(uncps(&f["name"])), expand(uncps(&f["content"]), pad));
        }
    }
    // "bytes": the numbers of argv and of the file names are raw bytes (arguments and file names that are not valid UTF-8)
    let raw = case.get("bytes").and_then(|x| x.as_bool()).unwrap_or(false);
    let os = |v: &Value| -> std::ffi::OsString {
        if raw {
            use std::os::unix::ffi::OsStringExt;
            std::ffi::OsString::from_vec(v.as_array().map(|a| a.iter().map(|b| b.as_u64().unwrap_or(63) as u8).collect()).unwrap_or_default())
        } else {
            std::ffi::OsString::from(uncps(v))
        }
    };
    if raw {
        if let Some(files) = case["files"].as_array() {
            for f in files {
                let _ = std::fs::write(dir.join(os(&f["name"])), expand(uncps(&f["content"]), pad));
            }
        }
    }
    let argv: Vec<std::ffi::OsString> = case["argv"].as_array().map(|a| a.iter().map(|x| os(x)).collect()).unwrap_or_default();
    let out = guarded(|| {
        let mut child = match Command::new(&jp).args(&argv).current_dir(&dir).stdin(Stdio::piped()).stdout(Stdio::piped()).stderr(Stdio::piped()).spawn() {
            Ok(c) => c,
            Err(e) => return json!({"harness":ascii_cps(&format!("spawn {}: {}", jp, e))}),
        };
        if let Some(mut si) = child.stdin.take() {
            let _ = si.write_all(expand(uncps(&case["stdin"]), pad).as_bytes());
        }
        let o = child.wait_with_output();
        let o = match o {
            Ok(o) => o,
            Err(e) => return json!({"harness":ascii_cps(&e.to_string())}),
        };
        let stdout = String::from_utf8_lossy(&o.stdout).to_string();
        let stderr = String::from_utf8_lossy(&o.stderr).to_string();
        let code = o.status.code().unwrap_or(-1);
        // the library in-process on the same expression text and input text
        let expr_text = uncps(&case["expr"]);
        let input_text = expand(uncps(&case["input"]), pad);
        let lib = if case.get("expr_not_utf8").and_then(|x| x.as_bool()).unwrap_or(false) {
            // the expression argument is not text at all: there is nothing to compile
            json!({"stage":"compile","pretty":[],"is_string":false,"raw":[]})
        } else { match jmespath::compile(&expr_text) {
            Err(_) => json!({"stage":"compile","pretty":[],"is_string":false,"raw":[]}),
            Ok(e) => match jmespath::Variable::from_json(&input_text) {
                Err(_) => json!({"stage":"json","pretty":[],"is_string":false,"raw":[]}),
                Ok(v) => match e.search(v) {
                    Err(_) => json!({"stage":"search","pretty":[],"is_string":false,"raw":[]}),
                    Ok(r) => json!({"stage":"ok","pretty":cps(&serde_json::to_string_pretty(&*r).unwrap_or_default()),
                                    "is_string":r.is_string(),"raw":cps(r.as_string().map(|s| s.as_str()).unwrap_or(""))}),
                },
            },
        } };
        json!({"exit":code,"stdout":cps(&stdout),"stderr_empty":stderr.is_empty(),"panicked":stderr.contains("panicked at"),"lib":lib})
    });
    let _ = std::fs::remove_dir_all(&dir);
    obs.as_object_mut().unwrap().insert("out".into(), out);
    obs
}
