//! C17 runner for the specially handled input types: `x.to_jmespath()` and `search(x)` for a value x of the named Rust
//! type.  The same source is built under every feature set; the observations must not depend on it.

use crate::serde_rt::{tag_var, untag};
use crate::val::*;
use jmespath::{Rcvar, ToJmespath, Variable};
use serde_json::{json, Value};

/// Deeply nested values are reported by their spine (Convert.tla DeepVal): the container kind at each level, outermost first
/// (97 = array of one element, 111 = object with the single key "k"), and the leaf -- the same information, without the nesting.
fn tag_spine(v: &Variable) -> Value {
    let mut spine = vec![];
    let mut cur: Rcvar = Rcvar::new(v.clone());
    loop {
        let next = match &*cur {
            Variable::Array(a) if a.len() == 1 => {
                spine.push(97);
                a[0].clone()
            }
            Variable::Object(m) if m.len() == 1 && m.contains_key("k") => {
                spine.push(111);
                m["k"].clone()
            }
            _ => break,
        };
        cur = next;
    }
    json!({"t":"deep","spine":spine,"leaf":tag_var(&cur)})
}

fn both_with<T: ToJmespath + Clone>(x: T, tag: fn(&Variable) -> Value) -> Value {
    let a = match x.clone().to_jmespath() {
        Ok(v) => json!({"ok":tag(&v)}),
        Err(_) => json!({"err":true}),
    };
    let expr = jmespath::compile("@").unwrap();
    let b = match expr.search(x) {
        Ok(v) => json!({"ok":tag(&v)}),
        Err(_) => json!({"err":true}),
    };
    json!({"image":a,"searched":b})
}

fn both<T: ToJmespath + Clone>(x: T) -> Value {
    both_with(x, tag_var)
}

pub fn run_case(case: &Value) -> Value {
    let mut obs = case.clone();
    let ty = case["ty"].as_str().unwrap_or("");
    let n = &case["node"];
    let iv = n.get("v").and_then(|x| x.as_str()).unwrap_or("0");
    let out = guarded(|| {
        // a value nested `d` levels deep is built here, in code (Convert.tla DeepVal): no JSON text of that depth can be parsed
        let deep = |d: u64, shape: &str| {
            let mut v = json!(7);
            for level in 1..=d {
                v = if shape == "arr" || (shape == "mix" && level % 2 == 0) { Value::Array(vec![v]) } else { json!({"k":v}) };
            }
            v
        };
        let jv = || match case.get("deep") {
            Some(dp) => deep(dp["d"].as_u64().unwrap_or(0), dp["shape"].as_str().unwrap_or("arr")),
            None => untag(&case["json"]),
        };
        let var = || Variable::from_json(&jv().to_string()).unwrap_or(Variable::Null);
        match ty {
            "Value" if case.get("deep").is_some() => both_with(jv(), tag_spine),
            "&Value" if case.get("deep").is_some() => {
                let v = jv();
                both_with(&v, tag_spine)
            }
            "Value" => both(jv()),
            "&Value" => {
                let v = jv();
                both(&v)
            }
            "Variable" => both(var()),
            "&Variable" => {
                let v = var();
                both(&v)
            }
            "Rcvar" => both(Rcvar::new(var())),
            "&Rcvar" => {
                let v = Rcvar::new(var());
                both(&v)
            }
            "String" => both(uncps(&n["s"])),
            "&str" => {
                let s = uncps(&n["s"]);
                both(s.as_str())
            }
            "i8" => both(iv.parse::<i8>().unwrap_or(0)),
            "i16" => both(iv.parse::<i16>().unwrap_or(0)),
            "i32" => both(iv.parse::<i32>().unwrap_or(0)),
            "i64" => both(iv.parse::<i64>().unwrap_or(0)),
            "isize" => both(iv.parse::<isize>().unwrap_or(0)),
            "u8" => both(iv.parse::<u8>().unwrap_or(0)),
            "u16" => both(iv.parse::<u16>().unwrap_or(0)),
            "u32" => both(iv.parse::<u32>().unwrap_or(0)),
            "u64" => both(iv.parse::<u64>().unwrap_or(0)),
            "usize" => both(iv.parse::<usize>().unwrap_or(0)),
            "f32" => both((n["p"].as_f64().unwrap_or(0.0) / n["q"].as_f64().unwrap_or(1.0)) as f32),
            "f64" => both(n["p"].as_f64().unwrap_or(0.0) / n["q"].as_f64().unwrap_or(1.0)),
            "bool" => both(n["b"].as_bool().unwrap_or(false)),
            "()" => both(()),
            _ => json!({"harness":ascii_cps("unknown type")}),
        }
    });
    obs.as_object_mut().unwrap().insert("out".into(), out);
    obs
}
