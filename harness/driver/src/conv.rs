//! C17 runner for the specially handled input types: `x.to_jmespath()` and `search(x)` for a value x of the named Rust
//! type.  The same source is built under every feature set; the observations must not depend on it.

use crate::serde_rt::{tag_var, untag};
use crate::val::*;
use jmespath::{Rcvar, ToJmespath, Variable};
use serde_json::{json, Value};

/// Deeply nested values are reported by their spine (Convert.tla DeepVal): the container kind at each level, outermost first
/// (97 = array of one element, 111 = object with the single key "k"), and the leaf -- the same information, without the nesting.
fn tag_spine(v: &Variable) -> Value {
    let mut spine = vec![];
    let mut cur: Rcvar = Rcvar::new(v.clone());
    loop {
        let next = match &*cur {
            Variable::Array(a) if a.len() == 1 => {
                spine.push(97);
                a[0].clone()
            }
            Variable::Object(m) if m.len() == 1 && m.contains_key("k") => {
                spine.push(111);
                m["k"].clone()
            }
            _ => break,
        };
        cur = next;
    }
    json!({"t":"deep","spine":spine,"leaf":tag_var(&cur)})
}

fn both_with<T: ToJmespath + Clone>(x: T, tag: fn(&Variable) -> Value) -> Value {
    let a = match x.clone().to_jmespath() {
        Ok(v) => json!({"ok":tag(&v)}),
        Err(_) => json!({"err":true}),
    };
    let expr = jmespath::compile("@").unwrap();
    let b = match expr.search(x) {
        Ok(v) => json!({"ok":tag(&v)}),
        Err(_) => json!({"err":true}),
    };
    json!({"image":a,"searched":b})
}

fn both<T: ToJmespath + Clone>(x: T) -> Value {
    both_with(x, tag_var)
}

/// Inputs of types WITHOUT a specialised conversion (containers, tuples, structs, 128-bit integers, maps with keys that are not
/// strings): under every feature set they take the generic route, so the outcome -- a value or a refusal -- must be the same.
fn generic_by_name(name: &str) -> Value {
    use std::collections::{BTreeMap, HashMap};
    #[derive(serde_derive::Serialize, Clone)]
    struct P { x: i32, y: Option<String> }
    match name {
        "Vec<i32>" => both(vec![1, -2, 3]),
        "&Vec<i32>" => { let v = vec![1, -2, 3]; both(&v) }
        "BTreeMap<String,i32>" => both([("a".to_string(), 1), ("b".to_string(), 2)].iter().cloned().collect::<BTreeMap<String, i32>>()),
        "BTreeMap<u16,String>" => both([(80u16, "http".to_string()), (443u16, "https".to_string())].iter().cloned().collect::<BTreeMap<u16, String>>()),
        "BTreeMap<bool,i32>" => both([(true, 1)].iter().cloned().collect::<BTreeMap<bool, i32>>()),
        "BTreeMap<char,i32>" => both([('k', 1)].iter().cloned().collect::<BTreeMap<char, i32>>()),
        "HashMap<i64,()>" => both([(7i64, ())].iter().cloned().collect::<HashMap<i64, ()>>()),
        "Vec<BTreeMap<u8,u8>>" => both(vec![[(1u8, 2u8)].iter().cloned().collect::<BTreeMap<u8, u8>>()]),
        "(i32,String)" => both((1, "s".to_string())),
        "P" => both(P { x: 1, y: None }),
        "Option<i32>" => both(Some(5)),
        "Option<()>" => both(None::<()>),
        "i128" => both(5i128),
        "u128" => both(7u128),
        "i128big" => both(i128::MAX),
        "[u8;2]" => both([1u8, 2u8]),
        "Box<i32>" => both(Box::new(3)),
        "char" => both('c'),
        "f32nan" => both(f32::NAN),
        "f64nan" => both(f64::NAN),
        "f64inf" => both(f64::INFINITY),
        "f32neginf" => both(f32::NEG_INFINITY),
        "&f64nan" => { let x = f64::NAN; both(&x) }
        // every class of finite float: subnormals of both signs, the smallest normal, the largest finite, both zeros
        "f64sub1" => both(5e-324f64),
        "f64sub2" => both(1e-310f64),
        "f64subneg" => both(-3.7e-315f64),
        "f64subtop" => both(f64::from_bits(0x000f_ffff_ffff_ffff)),
        "f64minpos" => both(f64::MIN_POSITIVE),
        "f64max" => both(f64::MAX),
        "f64min" => both(f64::MIN),
        "f64negzero" => both(-0.0f64),
        "f64eps" => both(f64::EPSILON),
        "f32sub" => both(1e-40f32),
        "f32minpos" => both(f32::MIN_POSITIVE),
        "f32max" => both(f32::MAX),
        "f32negzero" => both(-0.0f32),
        "&f64sub" => { let x = 1e-310f64; both(&x) }
        "Vec<f64sub>" => both(vec![5e-324f64, -1e-310]),
        "Option<f64sub>" => both(Some(1e-310f64)),
        "Vec<f64>" => both(vec![0.5, f64::INFINITY]),
        "(BTreeMap<i8,i8>,i8)" => both(([(1i8, 1i8)].iter().cloned().collect::<BTreeMap<i8, i8>>(), 1i8)),
        "Vec<u128>" => both(vec![1u128]),
        _ => json!({"harness":ascii_cps("unknown generic type")}),
    }
}

pub fn run_case(case: &Value) -> Value {
    if case["kind"] == "convgen" {
        let mut obs = case.clone();
        let name = case["ty"].as_str().unwrap_or("").to_string();
        let out = guarded(|| generic_by_name(&name));
        obs.as_object_mut().unwrap().insert("out".into(), out);
        return obs;
    }
    let mut obs = case.clone();
    let ty = case["ty"].as_str().unwrap_or("");
    let n = &case["node"];
    let iv = n.get("v").and_then(|x| x.as_str()).unwrap_or("0");
    let out = guarded(|| {
        // a value nested `d` levels deep is built here, in code (Convert.tla DeepVal): no JSON text of that depth can be parsed
        let deep = |d: u64, shape: &str| {
            let mut v = json!(7);
            for level in 1..=d {
                v = if shape == "arr" || (shape == "mix" && level % 2 == 0) { Value::Array(vec![v]) } else { json!({"k":v}) };
            }
            v
        };
        let jv = || match case.get("deep") {
            Some(dp) => deep(dp["d"].as_u64().unwrap_or(0), dp["shape"].as_str().unwrap_or("arr")),
            None => untag(&case["json"]),
        };
        let var = || Variable::from_json(&jv().to_string()).unwrap_or(Variable::Null);
        match ty {
            "Value" if case.get("deep").is_some() => both_with(jv(), tag_spine),
            "&Value" if case.get("deep").is_some() => {
                let v = jv();
                both_with(&v, tag_spine)
            }
            "Value" => both(jv()),
            "&Value" => {
                let v = jv();
                both(&v)
            }
            "Variable" => both(var()),
            "&Variable" => {
                let v = var();
                both(&v)
            }
            "Rcvar" => both(Rcvar::new(var())),
            "&Rcvar" => {
                let v = Rcvar::new(var());
                both(&v)
            }
            "String" => both(uncps(&n["s"])),
            "&str" => {
                let s = uncps(&n["s"]);
                both(s.as_str())
            }
            "i8" => both(iv.parse::<i8>().unwrap_or(0)),
            "i16" => both(iv.parse::<i16>().unwrap_or(0)),
            "i32" => both(iv.parse::<i32>().unwrap_or(0)),
            "i64" => both(iv.parse::<i64>().unwrap_or(0)),
            "isize" => both(iv.parse::<isize>().unwrap_or(0)),
            "u8" => both(iv.parse::<u8>().unwrap_or(0)),
            "u16" => both(iv.parse::<u16>().unwrap_or(0)),
            "u32" => both(iv.parse::<u32>().unwrap_or(0)),
            "u64" => both(iv.parse::<u64>().unwrap_or(0)),
            "usize" => both(iv.parse::<usize>().unwrap_or(0)),
            "f32" | "f64" if n.get("special").is_some() => {
                let x = match n["special"].as_str().unwrap_or("") { "inf" => f64::INFINITY, "ninf" => f64::NEG_INFINITY, _ => f64::NAN };
                if ty == "f32" { both(x as f32) } else { both(x) }
            }
            "f32" => both((n["p"].as_f64().unwrap_or(0.0) / n["q"].as_f64().unwrap_or(1.0)) as f32),
            "f64" => both(n["p"].as_f64().unwrap_or(0.0) / n["q"].as_f64().unwrap_or(1.0)),
            "bool" => both(n["b"].as_bool().unwrap_or(false)),
            "()" => both(()),
            _ => json!({"harness":ascii_cps("unknown type")}),
        }
    });
    obs.as_object_mut().unwrap().insert("out".into(), out);
    obs
}
